import Driver.Sexp
import Plenc.Alloc
import Plenc.Spec.Format
import Plenc.World
import Plenc.Alias
import Plenc.Descriptor
import Plenc.JSONAny
import Plenc.Plenctag
import Plenc.JSONOut
import Plenc.Intern
import Plenc.RegistryTrace
import Plenc.InternTrace
import Plenc.BQTime
/-
  Driver.Main — reads one op per line on stdin, runs the model's executable
  definitions, prints one canonical result line per op.  The Go harness runs the
  real code on the same ops; `check` diffs the two streams.
-/

def showRes {α} (f : α → String) : Res α → String
  | .ok a => "ok " ++ f a
  | .err => "err"
  | .panic => "panic"
  | .hang => "hang"

def optBind {α β} (o : Option α) (f : α → Option β) : Option β := o.bind f

/-- build with the top-level conventions of `Marshal`/`Unmarshal`. -/
def buildTop (cfg : Cfg) (d : TyDef) (tag : String) : Res Ty := build cfg d tag

/-- outputter calls: so eo sa ea (n xRAW) (s xRAW) (t xTOK) and typed scalars
(i64 V xTOK) (u64 V xTOK) (f64 BITS xTOK) (f32 BITS xTOK) (bool B xTOK) (time S N xTOK) (raw xTOK):
the model takes the token bytes (number/time formatting is a parameter of the
model, supplied by the harness from strconv / time directly). -/
def parseCall : Sexp → Option JSONOut.Call
  | .atom "so" => some .startObj
  | .atom "eo" => some .endObj
  | .atom "sa" => some .startArr
  | .atom "ea" => some .endArr
  | .list [.atom "n", .atom h] => (parseHex h).map .name
  | .list [.atom "s", .atom h] => (parseHex h).map .str
  | .list [.atom "t", .atom h] => (parseHex h).map .tok
  | .list [.atom "raw", .atom h] => (parseHex h).map .tok
  | .list [.atom _, .atom _, .atom h] => (parseHex h).map .tok
  | .list [.atom "time", .atom _, .atom _, .atom h] => (parseHex h).map .tok
  | _ => none

partial def showDesc (d : Desc) : String :=
  s!"(d {d.index} {hexOfStr d.name} {d.type.code} {hexOfStr d.typeName} {if d.explicitPresence then 1 else 0} {d.logicalType.code}" ++
    String.join (d.elements.map fun e => " " ++ showDesc e) ++ ")"

def showOCall : OCall → String
  | .startObj => "so" | .endObj => "eo" | .startArr => "sa" | .endArr => "ea"
  | .name r => s!"(n {hexOf r})" | .str r => s!"(s {hexOf r})"
  | .int64 v => s!"(i64 {v})" | .uint64 v => s!"(u64 {v})"
  | .f32 b => s!"(f32 {b})" | .f64 b => s!"(f64 {b})"
  | .bool b => if b then "(b 1)" else "(b 0)"
  | .time s n => s!"(t {s} {n})"
  | .raw t => s!"(raw {hexOf t})"

def showJOCall : JSONAny.OCall → String
  | .startObj => "so" | .endObj => "eo" | .startArr => "sa" | .endArr => "ea"
  | .name r => s!"(n {hexOf r})" | .str r => s!"(s {hexOf r})"
  | .int64 v => s!"(i64 {v})" | .f64 b => s!"(f64 {b})"
  | .bool b => if b then "(b 1)" else "(b 0)"
  | .raw t => s!"(raw {hexOf t})"

mutual
partial def parseJV : Sexp → Option JSONAny.JVal
  | .atom "null" => some .null
  | .list [.atom "s", .atom h] => (parseHex h).map .str
  | .list [.atom "i", .atom n] => n.toInt?.map .int
  | .list [.atom "f", .atom n] => n.toNat?.map .float
  | .list [.atom "b", .atom b] => some (.bool (b == "1"))
  | .list [.atom "n", .atom h] => (parseHex h).map .num
  | .list [.atom "an"] => some (.arr none)
  | .list (.atom "a" :: xs) => (xs.mapM parseJV).map fun l => .arr (some l)
  | .list [.atom "on"] => some (.obj none)
  | .list (.atom "o" :: kvs) => (kvs.mapM parseJKV).map fun l => .obj (some l)
  | _ => none
partial def parseJKV : Sexp → Option (Bytes × JSONAny.JVal)
  | .list [.atom k, v] => do let k ← parseHex k; let v ← parseJV v; pure (k, v)
  | _ => none
end

partial def showJV : JSONAny.JVal → String
  | .null => "null"
  | .str s => s!"(s {hexOf s})"
  | .int i => s!"(i {i})"
  | .float b => s!"(f {b})"
  | .bool b => if b then "(b 1)" else "(b 0)"
  | .num t => s!"(n {hexOf t})"
  | .arr none => "(an)"
  | .arr (some xs) => "(a" ++ String.join (xs.map fun x => " " ++ showJV x) ++ ")"
  | .obj none => "(on)"
  | .obj (some kvs) =>
      "(o" ++ String.join ((sortStrings (kvs.map fun kv => s!"({hexOf kv.1} {showJV kv.2})")).map (" " ++ ·)) ++ ")"

def showJRT (v : JSONAny.JVal) : String :=
  match JSONAny.jsonRoundTripTop v with
  | .ok r => showJV r
  | .err => "err" | .panic => "panic" | .hang => "hang"

def parseTTField : Sexp → Option Plenctag.Field
  | .list [.atom "fd", .list (.atom "n" :: names), .atom emb, tag] => do
      let names ← names.mapM fun n => match n with | .atom h => parseHexStr h | _ => none
      let emb ← parseHexStr emb
      let rawTag ← match tag with
        | .atom "none" => some none
        | .atom h => (parseHexStr h).map some
        | _ => none
      pure { names := names, embeddedName := emb, rawTag := rawTag }
  | _ => none

def showTTField (f : Plenctag.Field) : String :=
  "(fd (n" ++ String.join (f.names.map fun n => " " ++ hexOfStr n) ++ ") " ++
    (match f.rawTag with | none => "none" | some t => hexOfStr t) ++ ")"

/-- `(struct 2 3)`, `(ptr 1)`, `(slice 1)`, `(map 1 2)`, `(basic)`, `(bad)`. -/
def parseTNode : Sexp → Option Registry.TNode
  | .list [.atom "basic"] => some .basic
  | .list [.atom "bad"] => some .bad
  | .list [.atom "ptr", .atom e] => e.toNat?.map .ptr
  | .list [.atom "slice", .atom e] => e.toNat?.map .slice
  | .list [.atom "map", .atom k, .atom v] => do some (.map (← k.toNat?) (← v.toNat?))
  | .list (.atom "struct" :: fs) => (fs.mapM fun (f : Sexp) => match f with | .atom a => a.toNat? | _ => none).map .struct
  | _ => none

def parseNats (l : List Sexp) : Option (List Nat) :=
  l.mapM fun (f : Sexp) => match f with | .atom a => a.toNat? | _ => none

def parseRegEv : Sexp → Option (Nat × Registry.Ev)
  | .list [.atom t, .atom "L", .atom ty] => do some ((← t.toNat?), .load (← ty.toNat?))
  | .list [.atom t, .atom "S", .atom ty] => do some ((← t.toNat?), .store (← ty.toNat?))
  | _ => none

def natSort (l : List Nat) : List Nat := (l.toArray.qsort (· < ·)).toList

/-- `(regtrace (graph NODE…) (pre id…) (reqs (id…)…) (events (tid L|S id)…))`: the
trace of shared-registry accesses recorded from the real run, replayed on
`Registry` (C07.trace_replay_reach). -/
def regTrace (graph pre reqs events : List Sexp) : String :=
  match graph.mapM parseTNode, parseNats pre,
        reqs.mapM (fun (r : Sexp) => match r with | .list l => parseNats l | _ => none),
        events.mapM parseRegEv with
  | some nodes, some pre, some reqs, some evs =>
    let fuel := 100000
    let s0 := Registry.startState nodes pre reqs fuel
    (match Registry.conform fuel s0 evs 0 with
     | .error (k, m) => s!"deviates at event {k}: {m}"
     | .ok s =>
       let n := reqs.length + 1
       let sf := Registry.finish fuel s n
       match (List.range n).find? fun i => !(sf.threads i).quiet with
       | some i =>
         (match Registry.sharedNext (sf.threads i) with
          | some e => s!"deviates after the last event: the model's goroutine {i} still has `{e.show}` to do"
          | none => s!"deviates after the last event: the model's goroutine {i} is not finished")
       | none =>
         let keys := natSort (sf.keys.filter fun k => !pre.contains k)
         let res := (List.range reqs.length).map fun i =>
           String.intercalate "," (((sf.threads (i + 1)).results.reverse).map fun r => if r.2.isSome then "ok" else "err")
         let fault := (List.range n).any fun i => (sf.threads i).fault
         s!"conforms keys={keys} results={res}" ++ (if fault then " FAULT" else ""))
  | _, _, _, _ => "bad-op"

/-- one op of a `world` script against the multi-instance model (Plenc/World.lean). -/
def worldOp (w : World.World) (o : Sexp) : World.World × String :=
  let idx (a : String) : Nat := a.toNat?.getD 999
  match o with
  | .list [.atom "new", .atom fl] =>
    let (w', out) := World.step w (.newInstance (fl.toList.getD 0 '0' == '1') (fl.toList.getD 1 '0' == '1'))
    (w', match out with | .created id => toString id | _ => "?")
  | .list [.atom "reg", .atom i, .atom n, .atom t, .atom c] =>
    match parseHexStr n, parseHexStr t, parseScalarTy c with
    | some n, some t, some c =>
      let (w', out) := World.step w (.register (idx i) n t c)
      (w', match out with | .done => "-" | .late => "late" | _ => "?")
    | _, _, _ => (w, "bad-op")
  | .list [.atom "null", .atom i] =>
    let (w', out) := World.step w (.addNull (idx i))
    (w', match out with | .done => "-" | .late => "late" | _ => "?")
  | .list [.atom "enc", .atom i, td, v] =>
    match parseTyDef td, parseVal v with
    | some d, some v =>
      let (w1, oc) := World.step w (.codecFor (idx i) d "")
      (match oc with
       | .codec (.ok ty) =>
         let v := coerceIn ty v
         let (w2, ob) := World.step w1 (.marshal (idx i) d v)
         (match ob with
          | .bytes (.ok data) =>
            let (w3, ov) := World.step w2 (.unmarshal (idx i) d data ty.zero)
            (match ov with
             | .val (.ok r) => (w3, hexOf data ++ " " ++ showValTD d ty r)
             | _ => (w3, hexOf data ++ " err"))
          | _ => (w2, "err"))
       | _ => (w1, "err"))
    | _, _ => (w, "bad-op")
  | .list [.atom "cft", .atom i, td, .atom t] =>
    match parseTyDef td, parseHexStr t with
    | some d, some t =>
      let (w', out) := World.step w (.codecFor (idx i) d t)
      (w', match out with | .codec (.ok ty) => showTyD 5 ty | _ => "err")
    | _, _ => (w, "bad-op")
  | _ => (w, "bad-op")

def runOp (s : Sexp) : String :=
  match s with
  -- C07: (sched family nthreads seed (schedule…)): the model's verdict for every
  -- schedule is "every goroutine gets what it gets alone" (C07.use_never_sees_incomplete,
  -- result_agrees_with_sequential): the implementation must answer the same
  | .list (.atom "sched" :: _) => "same"
  | .list [.atom "regtrace", _, .list (.atom "graph" :: graph), .list (.atom "pre" :: pre),
           .list (.atom "reqs" :: reqs), .list (.atom "events" :: events)] => regTrace graph pre reqs events
  -- C19 concurrent: (internsched (reqs (xA…)…) (schedule…)): by C19.conc_finished every
  -- goroutine's results are its requests, under every schedule
  | .list [.atom "internsched", .list (.atom "reqs" :: ths), _] =>
    let parseThread : Sexp → Option (List Bytes) := fun th =>
      match th with
      | Sexp.list ds => ds.mapM (fun d => match d with | Sexp.atom h => parseHex h | _ => none)
      | _ => none
    match ths.mapM parseThread with
    | some reqs =>
      -- run the model's own machine sequentially (thread after thread) as the reference result
      let st := Intern.init reqs
      let fin : Intern.State := (List.range reqs.length).foldl (fun s i => Intern.runReads (reqs.getD i []).length s i) st
      let rs : List (List Bytes) := fin.results
      String.intercalate " | " (rs.map fun (r : List Bytes) => String.intercalate "," (r.map hexOf))
    | none => "bad-op"
  -- C19 trace correspondence: (interntrace (reqs (xA…)…) (schedule…) (events (tid point)…)):
  -- the recorded releases from the intern yield points replayed on Intern (C19.trace_replay_reach)
  | .list [.atom "interntrace", .list (.atom "reqs" :: ths), _, .list (.atom "events" :: evs)] =>
    let parseThread : Sexp → Option (List Bytes) := fun th =>
      match th with
      | Sexp.list ds => ds.mapM (fun d => match d with | Sexp.atom h => parseHex h | _ => none)
      | _ => none
    let parseEv : Sexp → Option (Nat × Intern.TEv) := fun e =>
      match e with
      | Sexp.list [Sexp.atom t, Sexp.atom "load"] => t.toNat?.map (·, Intern.TEv.load)
      | Sexp.list [Sexp.atom t, Sexp.atom "miss"] => t.toNat?.map (·, Intern.TEv.miss)
      | Sexp.list [Sexp.atom t, Sexp.atom "locked"] => t.toNat?.map (·, Intern.TEv.locked)
      | Sexp.list [Sexp.atom t, Sexp.atom "store"] => t.toNat?.map (·, Intern.TEv.store)
      | _ => none
    match ths.mapM parseThread, evs.mapM parseEv with
    | some reqs, some evs =>
      (match Intern.conformT (Intern.init reqs) evs 0 with
       | .error (k, m) => s!"deviates at event {k}: {m}"
       | .ok s =>
         if !s.finished then "deviates after the last event: the model's goroutines are not finished"
         else
           let keys := sortStrings (s.keys.map hexOf)
           let rs : List (List Bytes) := s.results
           "conforms keys=" ++ String.intercalate "," keys ++ " results=" ++
             String.intercalate " | " (rs.map fun (r : List Bytes) => String.intercalate "," (r.map hexOf)))
    | _, _ => "bad-op"
  -- C20: (tagtool J S P (st (fd (n names…) xEMB TAG)…)…)
  | .list (.atom "tagtool" :: .atom j :: .atom sq :: .atom pr :: structs) =>
    match structs.mapM (fun st => match st with
        | .list (.atom "st" :: fds) => fds.mapM parseTTField
        | _ => none) with
    | some sts =>
      let fl : Plenctag.Flags := { json := j == "1", sql := sq == "1", priv := pr == "1" }
      -- the harness names an embedded field by its type expression; the tool uses the type's name
      let sts := sts.map fun fs => fs.map fun f =>
        { f with embeddedName :=
            -- `*T` → T, `pkg.T` → T (main.go embeddedName: StarExpr, SelectorExpr)
            let n := (f.embeddedName.dropWhile (· == '*')).toString
            (n.splitOn ".").getLast?.getD n }
      (match Plenctag.rewriteFileX fl sts with
       | .ok out => "ok " ++ String.intercalate " " (out.map fun fs =>
           "(st" ++ String.join (fs.map fun f => " " ++ showTTField f) ++ ")")
       | .err _ => "err"
       | .panic => "panic" | .hang => "hang" | .unsupported => "unsupported")
    | none => "bad-op"
  -- C17: (world OP…)
  | .list (.atom "world" :: ops) =>
    let (_, outs) := ops.foldl (fun (acc : World.World × List String) o =>
      let (w', s) := worldOp acc.1 o; (w', acc.2 ++ [s])) (World.init, [])
    String.intercalate " | " outs
  -- C14: (desc cfg T tag): the Descriptor of the codec
  | .list [.atom "desc", cfgS, td, .atom tag] =>
    match parseCfg cfgS, parseTyDef td, parseHexStr tag with
    | some c, some d, some t =>
      (match buildTop c d t with
       | .ok ty => "ok " ++ showDesc (descriptor ty)
       | _ => "builderr")
    | _, _, _ => "bad-op"
  -- C13: (desccalls cfg T tag V via): outputter calls of the descriptor walk over Marshal(v)
  | .list [.atom "desccalls", cfgS, td, .atom tag, v, _, .atom dataH] =>
    match parseCfg cfgS, parseTyDef td, parseHexStr tag, parseVal v, parseHex dataH with
    | some c, some d, some t, some _, some data =>
      (match buildTop c d t with
       | .ok ty =>
         -- the walk is over the implementation's own bytes (map iteration order is Go's)
         (match descCalls ty data with
          | .ok cs => "ok " ++ String.intercalate " " (cs.map showOCall)
          | .err => "err" | .panic => "panic" | .hang => "hang")
       | _ => "builderr")
    | _, _, _, _, _ => "bad-op"
  -- C04 for the other decoders: hostile bytes through the descriptor walker and the JSON-any codecs
  | .list [.atom "deschost", cfgS, td, .atom tag, .atom dataH] =>
    match parseCfg cfgS, parseTyDef td, parseHexStr tag, parseHex dataH with
    | some c, some d, some t, some data =>
      (match buildTop c d t with
       | .ok ty =>
         (match descCalls ty data with
          | .ok cs => "ok " ++ String.intercalate " " (cs.map showOCall)
          | .err => "err" | .panic => "panic" | .hang => "hang")
       | _ => "builderr")
    | _, _, _, _ => "bad-op"
  | .list [.atom "jhost", .atom kind, .atom dataH] =>
    match parseHex dataH with
    | some data =>
      (match JSONAny.jsonDecodeTop (kind == "obj") data with
       | .ok r => "ok " ++ showJV r
       | .err => "err" | .panic => "panic" | .hang => "hang")
    | none => "bad-op"
  | .list [.atom "jhostdesc", .atom kind, .atom dataH] =>
    match parseHex dataH with
    | some data =>
      (match JSONAny.jsonDescTop (kind == "obj") data with
       | .ok cs => "ok " ++ String.intercalate " " (cs.map showJOCall)
       | .err => "err" | .panic => "panic" | .hang => "hang")
    | none => "bad-op"
  -- C16: (jrt position V [V2 | xDATA])
  | .list [.atom "jrt", .atom "top", v, .atom dataH] =>
    match parseJV v, parseHex dataH with
    | some v, some data =>
      let isObj := match v with | .obj _ => true | _ => false
      -- decode the implementation's bytes; they must denote the same value as the model's own encoding
      (match JSONAny.jsonDecodeTop isObj data with
       | .ok r =>
         if showJV r == showJRT v && data.length == (JSONAny.jsonEncodeTop v).length then "ok " ++ showJV r
         else s!"ok {showJV r} ENC-MISMATCH {showJRT v}"
       | .err => "err" | .panic => "panic" | .hang => "hang")
    | _, _ => "bad-op"
  -- (jrt merge V PRIOR xDATA): the implementation's bytes decoded into a target that already holds PRIOR
  | .list [.atom "jrt", .atom "merge", v, prior, .atom dataH] =>
    match parseJV v, parseJV prior, parseHex dataH with
    | some v, some p, some data =>
      (match v, p with
       | .obj _, .obj pm =>
         (match JSONAny.mapRead (data.length + 1) data .slice pm with
          | .ok (m, _) => "ok " ++ showJV (.obj m)
          | .err => "err" | .panic => "panic" | .hang => "hang")
       | .arr _, .arr pa =>
         (match JSONAny.arrRead (data.length + 1) data .slice pa with
          | .ok (a, _) => "ok " ++ showJV (.arr a)
          | .err => "err" | .panic => "panic" | .hang => "hang")
       | _, _ => "bad-op")
    | _, _, _ => "bad-op"
  | .list [.atom "jrt", .atom "field", v, v2] =>
    match parseJV v, parseJV v2 with
    | some v, some v2 => s!"ok -7 {showJRT v} {showJRT v2} x7a"
    | _, _ => "bad-op"
  | .list [.atom "jrt", .atom "skip", v, v2] =>
    match parseJV v, parseJV v2 with
    | some _, some _ => "ok -7 x7a"
    | _, _ => "bad-op"
  | .list [.atom "jrt", .atom "desc", v, .atom dataH] =>
    match parseJV v, parseHex dataH with
    | some v, some data =>
      let isObj := match v with | .obj _ => true | _ => false
      (match JSONAny.jsonDescTop isObj data with
       | .ok cs => "ok " ++ String.intercalate " " (cs.map showJOCall)
       | .err => "err" | .panic => "panic" | .hang => "hang")
    | _, _ => "bad-op"
  -- C11: (alias cfg T tag V): decode, then overwrite the input buffer, then read the decoded value again
  | .list [.atom "alias", cfgS, td, .atom tag, v] =>
    match parseCfg cfgS, parseTyDef td, parseHexStr tag, parseVal v with
    | some c, some d, some t, some v =>
      (match buildTop c d t with
       | .ok ty =>
         let data := marshal ty (coerceIn ty v)
         (match Alias.unmarshalL ty data (Alias.lift ty.zero) with
          | .ok lv =>
            let before := showValTD d ty (Alias.observe data lv)
            let after := showValTD d ty (Alias.observe (data.map fun _ => 170) lv)
            if before == after then "ok " ++ after else s!"ok {after} CHANGED-FROM {before}"
          | .err => "err" | .panic => "panic" | .hang => "hang")
       | _ => "builderr")
    | _, _, _, _ => "bad-op"
  -- C15: (jsonout (calls…) (calls…) …): one batch per Done()/Reset() cycle
  | .list (.atom "jsonout" :: batches) =>
    -- a batch `(abandon calls…)` is a half-written document: the calls are made, then Reset() without Done()
    let parseBatch : Sexp → Option (Bool × List JSONOut.Call) := fun b =>
      match b with
      | Sexp.list (Sexp.atom "abandon" :: cs) => (cs.mapM parseCall).map fun l => (true, l)
      | Sexp.list cs => (cs.mapM parseCall).map fun l => (false, l)
      | _ => none
    match batches.mapM parseBatch with
    | some bs =>
      let (_, outs) := bs.foldl (fun (acc : JSONOut.Out × List String) b =>
        let o' := JSONOut.run acc.1 b.2
        if b.1 then (o'.reset, acc.2) else (o'.fin.reset, acc.2 ++ [hexOf o'.done])) (JSONOut.fresh, [])
      String.intercalate " " outs
    | none => "bad-op"
  -- C19: (internseq xD1 xD2 …): results and sharing structure through one intern table
  | .list (.atom "internseq" :: .atom _kind :: ds) =>
    match ds.mapM (fun d => match d with | .atom h => parseHex h | _ => none) with
    | some ds =>
      -- sharing structure: allocation ids renumbered by first appearance among the
      -- non-empty results (the empty string has no observable identity in Go)
      let ids := Intern.internIds ds
      let pairs := (ds.zip ids).filter (fun p => !p.1.isEmpty)
      let order : List Nat := pairs.foldl (fun acc p => if acc.contains p.2 then acc else acc ++ [p.2]) []
      let shown := (ds.zip ids).map fun p =>
        if p.1.isEmpty then " -" else s!" {(order.findIdx (· == p.2))}"
      String.intercalate " " ((Intern.internSeq ds).map hexOf) ++ " |" ++ String.join shown
    | none => "bad-op"
  -- C18 primitives ---------------------------------------------------------
  | .list [.atom "varu", .atom n, .atom trail] =>
    match n.toNat?, parseHex trail with
    | some v, some t =>
      let a := appendVarUint v
      let r := readVarUint (a ++ t)
      s!"{hexOf a} {sizeVarUint v} {r.1} {r.2}"
    | _, _ => "bad-op"
  -- C05: the BigQuery timestamp codec. (bq SEC NSEC xTAG xTRAIL) / (bqread xDATA)
  | .list [.atom "bq", .atom sec, .atom nsec, .atom tag, .atom trail] =>
    match sec.toInt?, nsec.toInt?, parseHex tag, parseHex trail with
    | some s, some ns, some tg, some tr =>
      let body := BQTime.app s ns []
      let rd := match BQTime.read (body ++ tr) with
        | .ok ((s', ns'), n) => s!"ok {s'} {ns'} {n}"
        | _ => "err"
      s!"{BQTime.size s ns tg} {hexOf (BQTime.app s ns tg)} {BQTime.size s ns []} {hexOf body} {if BQTime.isOmitted s ns then 1 else 0} {rd}"
    | _, _, _, _ => "bad-op"
  | .list [.atom "bqread", .atom d] =>
    match parseHex d with
    | some d =>
      (match BQTime.read d with
       | .ok ((s', ns'), n) => s!"ok {s'} {ns'} {n}"
       | _ => "err")
    | none => "bad-op"
  | .list [.atom "varucap", .atom n, .atom pre, .atom _spare] =>
    match n.toNat?, pre.toNat? with
    | some v, some p =>
      let prefix_ : Bytes := (List.range p).map fun i => (0xA0 + i).toUInt8
      let sv : Int := wrapS 64 v
      s!"{hexOf (prefix_ ++ appendVarUint v)} {hexOf (prefix_ ++ appendVarInt sv)} {hexOf (prefix_ ++ appendVarUint (((v / 8) % 2^60) * 8 + v % 8))}"
    | _, _ => "bad-op"
  | .list [.atom "vari", .atom n, .atom trail] =>
    match n.toInt?, parseHex trail with
    | some v, some t =>
      let a := appendVarInt v
      let r := readVarInt (a ++ t)
      s!"{hexOf a} {sizeVarInt v} {zigZag v} {r.1} {r.2}"
    | _, _ => "bad-op"
  -- deep nesting probe of the JSON-any decoder: a runtime (stack) matter, outside the model
  | .list [.atom "jdeep", .atom _] => "unsupported"
  -- hundreds of thousands of elements: the model's decoder is quadratic in the element count; oracle only
  | .list [.atom "declong", _, _, .atom _, .atom _] => "unsupported"
  | .list (.atom "decdeep" :: _) => "unsupported"
  | .list (.atom "lawsz" :: _) => "unsupported"     -- many elements / entries: sizes and round trip judged by the oracle
  | .list (.atom "tdeep" :: _) => "unsupported"
  | .list (.atom "descconc" :: _) => "unsupported"
  | .list (.atom "jconc" :: _) => "unsupported"
  | .list (.atom "regintern" :: _) => "unsupported"
  | .list (.atom "bqptr" :: _) => "unsupported"
  | .list [.atom "entriespresent", .atom d, .atom m] =>
      (match parseHex d, m.toNat? with
       | some b, some mx => s!"ok {entriesPresent b mx}"
       | _, _ => "bad-op")
  | .list (.atom "gcptrs" :: _) => "unsupported"
  | .list (.atom "jdescdeep" :: _) => "unsupported"
  | .list (.atom "unwrap" :: _) => "unsupported"
  | .list [.atom "jalias"] => "unsupported"
  | .list [.atom "regselfhist"] => "unsupported"
  | .list [.atom "pkgreg"] => "unsupported"
  | .list [.atom "entryorder"] => "unsupported"
  | .list [.atom "reginterntag"] => "unsupported"
  | .list [.atom "regmapkind"] => "unsupported"   -- inputs nested deeper than the cut of a recursive type
  | .list [.atom "internmany", .atom _] => "unsupported"
  -- pointer-keyed maps: keys are identities, outside the value model
  | .list [.atom "ptrkeys", .atom _] => "unsupported"
  -- registration after a failed first use: outside the registration-before-use fragment of World
  | .list [.atom "latereg", .atom _] => "unsupported"
  -- `type P *P`: no finite TyDef
  | .list [.atom "buildself", .atom _] => "unsupported"
  | .list [.atom "zag", .atom n] =>
    match n.toNat? with
    | some v => s!"{zagZig v} {zigZag (zagZig v)}"
    | none => "bad-op"
  | .list [.atom "readu", .atom h] =>
    match parseHex h with
    | some d => let r := readVarUint d; s!"{r.1} {r.2}"
    | none => "bad-op"
  | .list [.atom "tag", .atom wt, .atom idx, .atom trail] =>
    match parseWT wt, idx.toNat?, parseHex trail with
    | some w, some i, some t =>
      let a := appendTag w i
      let r := readTagRaw (a ++ t)
      s!"{hexOf a} {sizeTag w i} {showWT r.1} {r.2.1} {r.2.2}"
    | _, _, _ => "bad-op"
  | .list [.atom "readtag", .atom h] =>
    match parseHex h with
    | some d => let r := readTagRaw d; s!"{showWT r.1} {r.2.1} {r.2.2}"
    | none => "bad-op"
  | .list [.atom "skip", .atom wt, .atom h] =>
    match parseWT wt, parseHex h with
    | some w, some d => showRes toString (skip d w)
    | _, _ => "bad-op"
  | .list [.atom "skipwf", .atom wt, .atom h, .atom tr] =>
    match parseWT wt, parseHex h, parseHex tr with
    | some w, some d, some t => showRes toString (skip (d ++ t) w)
    | _, _, _ => "bad-op"
  -- codecs -------------------------------------------------------------------
  | .list [.atom "build", cfgS, td, .atom tag, .atom depth] =>
    match parseCfg cfgS, parseTyDef td, parseHexStr tag with
    | some c, some d, some t => showRes (showTyD (depth.toNat?.getD 99)) (buildTop c d t)
    | _, _, _ => "bad-op"
  | .list [.atom "enc", cfgS, td, .atom tag, v] =>
    match parseCfg cfgS, parseTyDef td, parseHexStr tag, parseVal v with
    | some c, some d, some t, some v =>
      (match buildTop c d t with
       | .ok ty =>
         let v := coerceIn ty v
         let m := marshal ty v
         -- the independent format specification must give the same bytes (C02.marshal_eq_spec)
         if Spec.encode ty v == m then "ok " ++ hexOf m
         else s!"ok {hexOf m} SPEC-MISMATCH {hexOf (Spec.encode ty v)}"
       | e => showRes (fun _ => "") e)
    | _, _, _, _ => "bad-op"
  | .list [.atom "dec", cfgS, td, .atom tag, .atom h, prior] =>
    match parseCfg cfgS, parseTyDef td, parseHexStr tag, parseHex h with
    | some c, some d, some t, some data =>
      (match buildTop c d t with
       | .ok ty =>
         let p := match prior with
           | .atom "zero" => some ty.zero
           | s => (parseVal s).map (coerceIn ty)
         (match p with
          | some p => showRes (showValTD d ty) (unmarshal ty data p)
          | none => "bad-op")
       | _ => "builderr")
    | _, _, _, _ => "bad-op"
  -- (decm cfg T tag V PRIOR [stale | stale0 FULL]): the optional tail only shapes the target's spare capacity
  | .list (.atom "decm" :: cfgS :: td :: .atom tag :: v :: prior :: _) =>
    match parseCfg cfgS, parseTyDef td, parseHexStr tag, parseVal v with
    | some c, some d, some t, some v =>
      (match buildTop c d t with
       | .ok ty =>
         let p := match prior with
           | .atom "zero" => some ty.zero
           | s => (parseVal s).map (coerceIn ty)
         (match p with
          | some p => showRes (showValTD d ty) (unmarshal ty (marshal ty (coerceIn ty v)) p)
          | none => "bad-op")
       | _ => "builderr")
    | _, _, _, _ => "bad-op"
  -- (mut cfg T tag V1 V2): Marshal, change the variable in place, Marshal again: two pure encodings
  | .list [.atom "mut", cfgS, td, .atom tag, v1, v2] =>
    match parseCfg cfgS, parseTyDef td, parseHexStr tag, parseVal v1, parseVal v2 with
    | some c, some d, some t, some v1, some v2 =>
      (match buildTop c d t with
       | .ok ty => s!"ok {hexOf (marshal ty (coerceIn ty v1))} {hexOf (marshal ty (coerceIn ty v2))}"
       | _ => "builderr")
    | _, _, _, _, _ => "bad-op"
  | .list [.atom "rt", cfgS, td, .atom tag, v] =>
    match parseCfg cfgS, parseTyDef td, parseHexStr tag, parseVal v with
    | some c, some d, some t, some v =>
      (match buildTop c d t with
       | .ok ty =>
         let v := coerceIn ty v
         -- also confront the theorem's right-hand side (`normPos`) with the run
         (match unmarshal ty (marshal ty v) ty.zero with
          | .ok r =>
            let a := showValTD d ty r
            let b := showValTD d ty (ty.normPos v)
            if a == b then "ok " ++ a else s!"ok {a} NORM-MISMATCH {b}"
          | e => showRes (showValTD d ty) e)
       | _ => "builderr")
    | _, _, _, _ => "bad-op"
  -- (app cfg tydef tag val xPREFIX): Marshal(prefix, v)
  | .list [.atom "app", cfgS, td, .atom tag, v, .atom pre, _, _] =>
    match parseCfg cfgS, parseTyDef td, parseHexStr tag, parseVal v, parseHex pre with
    | some c, some d, some t, some v, some pre =>
      (match buildTop c d t with
       | .ok ty => "ok " ++ hexOf (pre ++ marshal ty (coerceIn ty v))
       | e => showRes (fun _ => "") e)
    | _, _, _, _, _ => "bad-op"
  -- (evolve cfg S S' val prior): data written as S, read as S'
  | .list [.atom "evolve", cfgS, td, td2, v, prior] =>
    match parseCfg cfgS, parseTyDef td, parseTyDef td2, parseVal v with
    | some c, some d, some d2, some v =>
      (match buildTop c d "", buildTop c d2 "" with
       | .ok ty, .ok ty2 =>
         let p := match prior with
           | .atom "zero" => some ty2.zero
           | s => (parseVal s).map (coerceIn ty2)
         (match p with
          | some p => showRes (showValTD d2 ty2) (unmarshal ty2 (marshal ty (coerceIn ty v)) p)
          | none => "bad-op")
       | _, _ => "builderr")
    | _, _, _, _ => "bad-op"
  -- (xdec cfgEnc cfgDec tydef val): written by one instance, read by another
  | .list [.atom "xdec", cfgE, cfgD, td, v] =>
    match parseCfg cfgE, parseCfg cfgD, parseTyDef td, parseVal v with
    | some ce, some cd, some d, some v =>
      (match buildTop ce d "", buildTop cd d "" with
       | .ok tye, .ok tyd => showRes (showValTD d tyd) (unmarshal tyd (marshal tye (coerceIn tye v)) tyd.zero)
       | _, _ => "builderr")
    | _, _, _, _ => "bad-op"
  -- (xdecm cfgEnc cfgDec tydef val PRIOR [stale]): the same into a populated target
  | .list (.atom "xdecm" :: cfgE :: cfgD :: td :: v :: prior :: _) =>
    match parseCfg cfgE, parseCfg cfgD, parseTyDef td, parseVal v, parseVal prior with
    | some ce, some cd, some d, some v, some p =>
      (match buildTop ce d "", buildTop cd d "" with
       | .ok tye, .ok tyd => showRes (showValTD d tyd) (unmarshal tyd (marshal tye (coerceIn tye v)) (coerceIn tyd p))
       | _, _ => "builderr")
    | _, _, _, _, _ => "bad-op"
  -- (laws cfg tydef tag val xTAGBYTES): Size, Append, Read-consumed on the codec itself
  | .list [.atom "laws", cfgS, td, .atom tag, v, .atom tb] =>
    match parseCfg cfgS, parseTyDef td, parseHexStr tag, parseVal v, parseHex tb with
    | some c, some d, some t, some v, some tb =>
      (match buildTop c d t with
       | .ok ty =>
         let v := coerceIn ty v
         let body := ty.app v []
         let rd := match ty.read ty.wt body ty.zero with
           | .ok (_, n) => s!"ok {n}"
           | .err => "err" | .panic => "panic" | .hang => "hang"
         s!"{ty.size v []} {hexOf body} {ty.size v tb} {hexOf (ty.app v tb)} {rd}"
       | _ => "builderr")
    | _, _, _, _, _ => "bad-op"
  -- (encm cfg tydef tag val xIMPLBYTES): the implementation's bytes are an
  -- encoding of `val` up to map entry order
  | .list [.atom "encm", cfgS, td, .atom tag, v, .atom h] =>
    match parseCfg cfgS, parseTyDef td, parseHexStr tag, parseVal v, parseHex h with
    | some c, some d, some t, some v, some data =>
      (match buildTop c d t with
       | .ok ty =>
         let v := coerceIn ty v
         if marshal ty v == data then "ok" else
         (match unmarshal ty data ty.zero with
          | .ok v1 =>
            if marshal ty (reorderLike ty v1 v) == data then "ok"
            else s!"mismatch {hexOf (marshal ty v)}"
          | _ => s!"mismatch {hexOf (marshal ty v)}")
       | _ => "builderr")
    | _, _, _, _, _ => "bad-op"
  | _ => "bad-op"

partial def loop (h : IO.FS.Stream) (out : IO.FS.Stream) : IO Unit := do
  let line ← h.getLine
  if line.isEmpty then return ()
  let l := line.trimAscii.toString
  if l.isEmpty || l.startsWith "#" then
    out.putStrLn l
  else
    match Sexp.parse l with
    | some s => out.putStrLn (runOp s)
    | none => out.putStrLn "bad-op"
  loop h out

def main : IO Unit := do
  let stdin ← IO.getStdin
  let stdout ← IO.getStdout
  loop stdin stdout
