import Plenc.Build
import Plenc.Typing
/-
  Driver.Sexp — the line protocol's syntax: s-expressions, and the concrete
  syntax of type definitions, values and results. Not part of the model: nothing
  is proved about this file; it is validated by the correspondence run itself
  (a parser bug shows up as a disagreement).
-/

inductive Sexp where
  | atom (s : String)
  | list (l : List Sexp)
deriving Repr, Inhabited

namespace Sexp

def tokenize (s : String) : List String :=
  let rec go (cs : List Char) (cur : List Char) (acc : List String) : List String :=
    match cs with
    | [] => (if cur.isEmpty then acc else String.ofList cur.reverse :: acc).reverse
    | c :: r =>
      if c == '(' || c == ')' then
        let acc := if cur.isEmpty then acc else String.ofList cur.reverse :: acc
        go r [] (String.singleton c :: acc)
      else if c == ' ' || c == '\n' || c == '\t' || c == '\r' then
        go r [] (if cur.isEmpty then acc else String.ofList cur.reverse :: acc)
      else go r (c :: cur) acc
  go s.toList [] []

partial def parseList (ts : List String) (acc : List Sexp) : Option (List Sexp × List String) :=
  match ts with
  | [] => none
  | ")" :: r => some (acc.reverse, r)
  | "(" :: r =>
    match parseList r [] with
    | some (l, r') => parseList r' (.list l :: acc)
    | none => none
  | a :: r => parseList r (.atom a :: acc)

def parse (s : String) : Option Sexp :=
  match tokenize s with
  | "(" :: r =>
    match parseList r [] with
    | some (l, []) => some (.list l)
    | _ => none
  | [a] => some (.atom a)
  | _ => none

end Sexp

def hexVal (c : Char) : Option Nat :=
  if '0' ≤ c ∧ c ≤ '9' then some (c.toNat - 48)
  else if 'a' ≤ c ∧ c ≤ 'f' then some (c.toNat - 87)
  else none

/-- `xDEADBEEF` → bytes (`x` alone = empty). -/
def parseHex (s : String) : Option Bytes :=
  match s.toList with
  | 'x' :: cs =>
    let rec go : List Char → List UInt8 → Option Bytes
      | [], acc => some acc.reverse
      | a :: b :: r, acc =>
        match hexVal a, hexVal b with
        | some x, some y => go r ((x * 16 + y).toUInt8 :: acc)
        | _, _ => none
      | _, _ => none
    go cs []
  | _ => none

def parseHexStr (s : String) : Option String :=
  (parseHex s).map fun b =>
    match String.fromUTF8? ⟨b.toArray⟩ with
    | some str => str
    | none => String.ofList (b.map fun x => Char.ofNat x.toNat)

def hexOf (b : Bytes) : String := "x" ++ b.toHex
def hexOfStr (s : String) : String := hexOf (s.toUTF8.toList)

def parseWT (s : String) : Option WT :=
  match s.toNat? with
  | some n => if n < 8 then some (WT.ofCode n) else none
  | none => none

def parseFlags (s : String) : Option Cfg :=
  match s with
  | "00" => some { protoTime := false, protoArrays := false }
  | "01" => some { protoTime := false, protoArrays := true }
  | "10" => some { protoTime := true, protoArrays := false }
  | "11" => some { protoTime := true, protoArrays := true }
  | _ => none

/-- scalar codecs that can be named in a registration (marker codecs of C17). -/
def parseScalarTy (s : String) : Option Ty :=
  match s with
  | "bool" => some .bool
  | "int8" => some (.int 8) | "int16" => some (.int 16) | "int32" => some (.int 32) | "int64" => some (.int 64)
  | "uint8" => some (.uint 8) | "uint16" => some (.uint 16) | "uint32" => some (.uint 32) | "uint64" => some (.uint 64)
  | "flat8" => some (.flat 8) | "flat16" => some (.flat 16) | "flat32" => some (.flat 32) | "flat64" => some (.flat 64)
  | "f32" => some .f32 | "f64" => some .f64
  | "str" => some (.str false) | "istr" => some (.str true) | "bytes" => some .bytes
  | "time" => some (.time false) | "timec" => some (.time true)
  | _ => none

/-- `00` | `(cfg 00 [null] (reg xNAME xTAG codec)…)` -/
def parseCfg : Sexp → Option Cfg
  | .atom a => parseFlags a
  | .list (.atom "cfg" :: .atom fl :: rest) => do
      let base ← parseFlags fl
      let rec go (c : Cfg) : List Sexp → Option Cfg
        | [] => some c
        | .atom "null" :: r => go { c with nullCodecs := true } r
        | .list [.atom "reg", .atom n, .atom t, .atom ty] :: r => do
            let n ← parseHexStr n
            let t ← parseHexStr t
            let ty ← parseScalarTy ty
            go { c with custom := c.custom ++ [(n, t, ty)] } r
        | _ => none
      go base rest
  | _ => none

def parseBasic (s : String) : Option Basic :=
  match s with
  | "bool" => some .bool
  | "int" => some (.int 64) | "int8" => some (.int 8) | "int16" => some (.int 16)
  | "int32" => some (.int 32) | "int64" => some (.int 64)
  | "uint" => some (.uint 64) | "uint8" => some (.uint 8) | "uint16" => some (.uint 16)
  | "uint32" => some (.uint 32) | "uint64" => some (.uint 64)
  | "f32" => some .f32 | "f64" => some .f64 | "str" => some .str
  | _ => none

mutual
partial def parseTyDef : Sexp → Option TyDef
  | .atom "time" => some .time
  | .atom a => (parseBasic a).map .basic
  | .list [.atom "named", .atom n, t] => do
      let n ← parseHexStr n; let t ← parseTyDef t; pure (.named n t)
  | .list [.atom "ptr", t] => (parseTyDef t).map .ptr
  | .list [.atom "slice", t] => (parseTyDef t).map .slice
  | .list [.atom "map", k, v] => do
      let k ← parseTyDef k; let v ← parseTyDef v; pure (.map k v)
  | .list [.atom "bad", .atom k] => some (.bad k)
  | .list [.atom "ext", .atom n] => (parseHexStr n).map .ext
  | .list (.atom "struct" :: .atom n :: fs) => do
      let n ← parseHexStr n
      let fs ← fs.mapM parseFieldDef
      pure (.struct n fs)
  | _ => none
partial def parseFieldDef : Sexp → Option (String × Bool × String × String × TyDef)
  | .list [.atom "f", .atom name, .atom exp, .atom ptag, .atom json, t] => do
      let name ← parseHexStr name
      let ptag ← parseHexStr ptag
      let json ← parseHexStr json
      let t ← parseTyDef t
      pure (name, exp == "1", ptag, json, t)
  | _ => none
end

mutual
partial def parseVal : Sexp → Option Val
  | .list [.atom "b", .atom x] => some (.bool (x == "1"))
  | .list [.atom "i", .atom x] => x.toInt?.map .int
  | .list [.atom "u", .atom x] => x.toNat?.map .uint
  | .list [.atom "f32", .atom x] => x.toNat?.map .f32
  | .list [.atom "f64", .atom x] => x.toNat?.map .f64
  | .list [.atom "s", .atom x] => (parseHex x).map .str
  | .list [.atom "y", .atom x] => (parseHex x).map .bytes
  | .list [.atom "T", .atom s, .atom n] => do
      let s ← s.toInt?; let n ← n.toNat?; pure (.time s n)
  | .list [.atom "p"] => some (.ptr none)
  | .list [.atom "p", v] => (parseVal v).map (.ptr ∘ some)
  | .list (.atom "l" :: vs) => (vs.mapM parseVal).map .slice
  | .list (.atom "r" :: vs) => (vs.mapM parseVal).map .struct
  | .list [.atom "mn"] => some (.map none)
  | .list (.atom "m" :: es) => (es.mapM parseEntry).map (.map ∘ some)
  | _ => none
partial def parseEntry : Sexp → Option (Val × Val)
  | .list [k, v] => do let k ← parseVal k; let v ← parseVal v; pure (k, v)
  | _ => none
end

/-- insertion sort on strings (entry lists are small). -/
def sortStrings (l : List String) : List String :=
  l.foldl (fun acc s =>
    let (a, b) := acc.span (· < s)
    a ++ s :: b) []

mutual
partial def showVal : Val → String
  | .bool b => if b then "(b 1)" else "(b 0)"
  | .int i => s!"(i {i})"
  | .uint n => s!"(u {n})"
  | .f32 x => s!"(f32 {x})"
  | .f64 x => s!"(f64 {x})"
  | .str s => s!"(s {hexOf s})"
  | .bytes s => s!"(y {hexOf s})"
  | .time s n => s!"(T {s} {n})"
  | .ptr none => "(p)"
  | .ptr (some v) => s!"(p {showVal v})"
  | .slice vs => "(l" ++ String.join (vs.map fun v => " " ++ showVal v) ++ ")"
  | .struct vs => "(r" ++ String.join (vs.map fun v => " " ++ showVal v) ++ ")"
  | .map none => "(mn)"
  | .map (some es) =>
      "(m" ++ String.join ((sortStrings (es.map fun e => s!"({showVal e.1} {showVal e.2})")).map (" " ++ ·)) ++ ")"
end

/-- `[]byte`-kinded Go values are written `(y hex)` by the harness whatever codec
plenc picked for them; when the codec is the packed-varint wrapper over uint8
(a defined byte-slice type, or `[]byte` under a tag option) the model's value is
a slice of uints. `coerceIn` converts on the way in, `showValT` on the way out. -/
def isU8Slice : Ty → Bool
  | .vslice (.uint 8) => true
  | _ => false

mutual
partial def coerceIn : Ty → Val → Val
  | .vslice (.uint 8), .bytes s => .slice (s.map fun b => .uint b.toNat)
  | .ptr t, .ptr (some v) => .ptr (some (coerceIn t v))
  | .vslice t, .slice vs => .slice (vs.map (coerceIn t))
  | .fslice t, .slice vs => .slice (vs.map (coerceIn t))
  | .lslice t, .slice vs => .slice (vs.map (coerceIn t))
  | .pslice t, .slice vs => .slice (vs.map (coerceIn t))
  | .struct _ fs, .struct vs => .struct (coerceFields fs vs)
  | .map k v _, .map (some es) => .map (some (es.map fun e => (coerceIn k e.1, coerceIn v e.2)))
  | _, v => v
partial def coerceFields : Fields → List Val → List Val
  | (_, _, t) :: r, v :: vs => coerceIn t v :: coerceFields r vs
  | _, vs => vs
end

mutual
partial def showValT : Ty → Val → String
  | .vslice (.uint 8), .slice vs =>
      "(y " ++ hexOf (vs.map fun v => match v with | .uint n => n.toUInt8 | _ => 0) ++ ")"
  | .ptr t, .ptr (some v) => s!"(p {showValT t v})"
  | .vslice t, .slice vs => "(l" ++ String.join (vs.map fun v => " " ++ showValT t v) ++ ")"
  | .fslice t, .slice vs => "(l" ++ String.join (vs.map fun v => " " ++ showValT t v) ++ ")"
  | .lslice t, .slice vs => "(l" ++ String.join (vs.map fun v => " " ++ showValT t v) ++ ")"
  | .pslice t, .slice vs => "(l" ++ String.join (vs.map fun v => " " ++ showValT t v) ++ ")"
  | .struct _ fs, .struct vs => "(r" ++ String.join ((showFieldsT fs vs).map (" " ++ ·)) ++ ")"
  | .map k v _, .map (some es) =>
      "(m" ++ String.join ((sortStrings (es.map fun e => s!"({showValT k e.1} {showValT v e.2})")).map (" " ++ ·)) ++ ")"
  | _, v => showVal v
partial def showFieldsT : Fields → List Val → List String
  | (_, _, t) :: r, v :: vs => showValT t v :: showFieldsT r vs
  | _, vs => vs.map showVal
end

/- Output form of byte-kinded slices, directed by the type DEFINITION: the harness
writes `(y hex)` for a slice whose element type is the unnamed `uint8` (`[]byte`,
a defined type over it, with or without tag option) and a list of `(u n)` for a
slice of a defined byte type (`[]MyU8`); both are `.vslice (.uint 8)` codecs. -/
mutual
partial def toWireD : TyDef → Val → Val
  | .named _ t, v => toWireD t v
  | .slice (.basic (.uint 8)), .slice vs =>
      .bytes (vs.map fun v => match v with | .uint n => n.toUInt8 | _ => 0)
  | .slice t, .slice vs => .slice (vs.map (toWireD t))
  | .ptr t, .ptr (some v) => .ptr (some (toWireD t v))
  | .map k v, .map (some es) => .map (some (es.map fun e => (toWireD k e.1, toWireD v e.2)))
  | .struct _ fs, .struct vs =>
      .struct (toWireFields (fs.filter fun f => f.2.1 && f.2.2.1 != "-") vs)
  | _, v => v
partial def toWireFields : FieldDefs → List Val → List Val
  | (_, _, _, _, t) :: r, v :: vs => toWireD t v :: toWireFields r vs
  | _, vs => vs
end

def showValTD (d : TyDef) (_ : Ty) (v : Val) : String := showVal (toWireD d v)

/- reorder the map entries of `v` to the order in which they occur in `tmpl`
(the model's decode of the implementation's bytes), matching entries by
normalised key: the encoding of a value with multi-entry maps is fixed only up
to Go's map iteration order. -/
mutual
partial def reorderLike : Ty → Val → Val → Val
  | .ptr t, .ptr (some a), .ptr (some b) => .ptr (some (reorderLike t a b))
  | .lslice t, .slice as, .slice bs =>
      if as.length == bs.length then .slice (List.zipWith (reorderLike t) as bs) else .slice bs
  | .pslice t, .slice as, .slice bs =>
      if as.length == bs.length then .slice (List.zipWith (reorderLike t) as bs) else .slice bs
  | .struct _ fs, .struct as, .struct bs => .struct (reorderFields fs as bs)
  | .map k vt _, .map (some es1), .map (some es2) =>
      let picked := es1.filterMap fun (k1, a) =>
        (es2.find? fun (k2, _) => showVal (k.normPos k2) == showVal k1).map fun (k2, b) => (k2, reorderLike vt a b)
      if picked.length == es2.length then .map (some picked) else .map (some es2)
  | _, _, v => v
partial def reorderFields : Fields → List Val → List Val → List Val
  | (_, _, t) :: r, a :: as, b :: bs => reorderLike t a b :: reorderFields r as bs
  | _, _, bs => bs
end

def showWT (w : WT) : String := toString w.code

/-- canonical rendering of a codec tree (what `build` returned), compared with
the harness's rendering of the real codec obtained through type switches.
Struct fields are shown down to `d` levels of struct nesting. -/
partial def showTyD (d : Nat) : Ty → String
  | .bool => "bool"
  | .int w => s!"int{w}"
  | .uint w => s!"uint{w}"
  | .flat w => s!"flat{w}"
  | .f32 => "f32" | .f64 => "f64"
  | .str i => if i then "istr" else "str"
  | .bytes => "bytes"
  | .time c => if c then "timec" else "time"
  | .ptr t => s!"(ptr {showTyD d t})"
  | .vslice t => s!"(vslice {showTyD d t})"
  | .fslice t => s!"(fslice {showTyD d t})"
  | .lslice t => s!"(lslice {showTyD d t})"
  | .pslice t => s!"(pslice {showTyD d t})"
  | .struct n fs => s!"(struct {hexOfStr n}" ++
      (if d = 0 then "" else
        String.join (fs.map fun (i, nm, t) => s!" ({i} {hexOfStr nm} {showTyD (d - 1) t})")) ++ ")"
  | .map k v p => s!"({if p then "pmap" else "map"} {showTyD d k} {showTyD d v})"

def showTy : Ty → String := showTyD 99
