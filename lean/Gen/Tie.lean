import Gen.Generated
import Plenc.Build
import Std.Tactic.BVDecide
/-
  Gen.Tie — lemmas equating what the translator read from /repo's source on this
  run (Gen/Generated.lean) with the hand-written model. A semantic change to one
  of the translated items breaks one of these lemmas; a harmless rewrite of a
  bit-vector expression is re-proved by `bv_decide` (which is why, in this file
  only, the `._native.bv_decide` axiom is accepted — DESIGN §9).
-/
namespace Tie

/-! ### constants -/

theorem wire_types : Gen.wireTypes =
    [("WTVarInt", WT.varint.code), ("WT64", WT.w64.code), ("WTLength", WT.len.code),
     ("WTSlice", WT.slice.code), ("wtEndGroupDeprecated", WT.endGroup.code), ("WT32", WT.w32.code)] := by
  decide

theorem nothing_untranslated : Gen.untranslated = [] := by decide

/-! ### zig-zag: the Go expressions against the model's integer definitions -/

theorem zigzag_cases (v : BitVec 64) :
    Gen.zigZag v = if v.msb then ~~~(v * 2#64) else v * 2#64 := by
  unfold Gen.zigZag; bv_decide

/-- `ZigZag(v)` as a uint64 is the model's `zigZag` of the int64 `v`. -/
theorem zigzag (v : BitVec 64) : (Gen.zigZag v).toNat = zigZag v.toInt := by
  rw [zigzag_cases]
  unfold _root_.zigZag
  have hm := BitVec.msb_eq_decide v
  have hlt := v.isLt
  rw [BitVec.toInt_eq_toNat_cond]
  by_cases h : v.msb
  · simp only [h, ↓reduceIte, BitVec.toNat_not, BitVec.toNat_mul, BitVec.toNat_ofNat]
    simp [h] at hm
    have h2 : ¬ (2 * v.toNat < 2 ^ 64) := by omega
    simp only [h2, ↓reduceIte]
    split <;> omega
  · have h' : v.msb = false := by simpa using h
    simp only [h', Bool.false_eq_true, ↓reduceIte, BitVec.toNat_mul, BitVec.toNat_ofNat]
    simp [h'] at hm
    have h2 : 2 * v.toNat < 2 ^ 64 := by omega
    simp only [h2, ↓reduceIte]
    split <;> omega

theorem zagzig_cases (v : BitVec 64) :
    Gen.zagZig v = if v &&& 1#64 = 0#64 then v >>> 1 else ~~~(v >>> 1) := by
  unfold Gen.zagZig; bv_decide

theorem and_one (v : BitVec 64) : (v &&& 1#64 = 0#64) ↔ v.toNat % 2 = 0 := by
  constructor
  · intro h
    have := congrArg BitVec.toNat h
    simp only [BitVec.toNat_and, BitVec.toNat_ofNat] at this
    have e := Nat.and_two_pow_sub_one_eq_mod v.toNat 1
    simp at e this; omega
  · intro h
    apply BitVec.eq_of_toNat_eq
    simp only [BitVec.toNat_and, BitVec.toNat_ofNat]
    have e := Nat.and_two_pow_sub_one_eq_mod v.toNat 1
    simp at e ⊢; omega

/-- `ZagZig(u)` as an int64 is the model's `zagZig` of the uint64 `u`. -/
theorem zagzig (v : BitVec 64) : (Gen.zagZig v).toInt = zagZig v.toNat := by
  rw [zagzig_cases]
  unfold _root_.zagZig
  have hlt := v.isLt
  by_cases h : v.toNat % 2 = 0
  · have := (and_one v).mpr h
    simp only [this, h, ↓reduceIte]
    rw [BitVec.toInt_eq_toNat_cond]
    simp only [BitVec.toNat_ushiftRight, Nat.shiftRight_eq_div_pow, Int.ofNat_eq_natCast]
    split <;> omega
  · have : ¬ (v &&& 1#64 = 0#64) := fun hh => h ((and_one v).mp hh)
    simp only [this, h, ↓reduceIte]
    rw [BitVec.toInt_eq_toNat_cond]
    simp only [BitVec.toNat_not, BitVec.toNat_ushiftRight, Nat.shiftRight_eq_div_pow, Int.ofNat_eq_natCast]
    split <;> omega

/-! ### tags -/

/-- `uint64(index<<3) | uint64(wt)` is `index*8 + wt` for the indexes the builder
accepts and the 3-bit wire type codes (AppendTag and SizeTag use the same word). -/
theorem tag_word (wt index : BitVec 64) (hi : index.toNat < 2 ^ 61) (hw : wt.toNat < 8) :
    (Gen.appendTagWord wt index).toNat = index.toNat * 8 + wt.toNat
    ∧ Gen.sizeTagWord wt index = Gen.appendTagWord wt index := by
  refine ⟨?_, rfl⟩
  unfold Gen.appendTagWord
  have e : index <<< 3 ||| wt = index * 8#64 + wt := by
    have h1 : index < 2305843009213693952#64 := by
      apply BitVec.lt_def.mpr; simpa using hi
    have h2 : wt < 8#64 := by apply BitVec.lt_def.mpr; simpa using hw
    bv_decide
  rw [e]
  simp only [BitVec.toNat_add, BitVec.toNat_mul, BitVec.toNat_ofNat]
  omega

/-- `ReadTag`: `wt = v & 7`, `index = v >> 3`, as in `readTag` / `readTagRaw`. -/
theorem read_tag_word (v : BitVec 64) :
    (Gen.readTag_wt v).toNat = v.toNat % 8 ∧ (Gen.readTag_index v).toNat = v.toNat / 8 := by
  constructor
  · unfold Gen.readTag_wt
    simp only [BitVec.toNat_and, BitVec.toNat_ofNat]
    have e := Nat.and_two_pow_sub_one_eq_mod v.toNat 3
    simp at e ⊢; omega
  · unfold Gen.readTag_index
    simp [BitVec.toNat_ushiftRight, Nat.shiftRight_eq_div_pow]

/-! ### SizeVarUint and the signed wrappers -/

theorem size_var_uint (v : Nat) : Gen.sizeVarUint v = sizeVarUint v := by
  unfold Gen.sizeVarUint _root_.sizeVarUint; rfl

theorem signed_wrappers :
    Gen.calls_ReadVarInt = ["ReadVarUint", "ZagZig"] ∧
    Gen.calls_SizeVarInt = ["SizeVarUint", "ZigZag"] ∧
    Gen.calls_AppendVarInt = ["AppendVarUint", "ZigZag"] ∧
    Gen.calls_ReadVarUint = ["binary.Uvarint"] := by decide

/-! ### the default registry and the kind switch -/

def goBasic : String → Option Basic
  | "bool" => some .bool
  | "int" => some (.int 64) | "int8" => some (.int 8) | "int16" => some (.int 16)
  | "int32" => some (.int 32) | "int64" => some (.int 64)
  | "uint" => some (.uint 64) | "uint8" => some (.uint 8) | "uint16" => some (.uint 16)
  | "uint32" => some (.uint 32) | "uint64" => some (.uint 64)
  | "float32" => some .f32 | "float64" => some .f64 | "string" => some .str
  | _ => none

def goType : String → Option TyDef
  | "[]byte" => some (.slice (.basic (.uint 8)))
  | "time.Time" => some .time
  | s => (goBasic s).map .basic

def goCodec : String → Option Ty
  | "plenccodec.BoolCodec{}" => some .bool
  | "plenccodec.Float64Codec{}" => some .f64
  | "plenccodec.Float32Codec{}" => some .f32
  | "plenccodec.IntCodec[int]{}" => some (.int 64)
  | "plenccodec.IntCodec[int8]{}" => some (.int 8)
  | "plenccodec.IntCodec[int16]{}" => some (.int 16)
  | "plenccodec.IntCodec[int32]{}" => some (.int 32)
  | "plenccodec.IntCodec[int64]{}" => some (.int 64)
  | "plenccodec.FlatIntCodec[uint]{}" => some (.flat 64)
  | "plenccodec.FlatIntCodec[uint8]{}" => some (.flat 8)
  | "plenccodec.FlatIntCodec[uint16]{}" => some (.flat 16)
  | "plenccodec.FlatIntCodec[uint32]{}" => some (.flat 32)
  | "plenccodec.FlatIntCodec[uint64]{}" => some (.flat 64)
  | "plenccodec.UintCodec[uint]{}" => some (.uint 64)
  | "plenccodec.UintCodec[uint8]{}" => some (.uint 8)
  | "plenccodec.UintCodec[uint16]{}" => some (.uint 16)
  | "plenccodec.UintCodec[uint32]{}" => some (.uint 32)
  | "plenccodec.UintCodec[uint64]{}" => some (.uint 64)
  | "plenccodec.StringCodec{}" => some (.str false)
  | "&plenccodec.InternedStringCodec{}" => some (.str true)
  | "plenccodec.BytesCodec{}" => some .bytes
  | "plenccodec.TimeCompatCodec{}" => some (.time true)
  | "plenccodec.TimeCodec{}" => some (.time false)
  | _ => none

def condHolds (cfg : Cfg) : String → Bool
  | "" => true
  | "p.ProtoCompatibleTime" => cfg.protoTime
  | "!p.ProtoCompatibleTime" => !cfg.protoTime
  | _ => false

/-- an injective code for the scalar codecs (all the default registry holds). -/
def scalarCode : Ty → Nat
  | .bool => 1 | .f32 => 2 | .f64 => 3 | .str false => 4 | .str true => 5 | .bytes => 6
  | .time false => 7 | .time true => 8
  | .int w => 100 + w | .uint w => 300 + w | .flat w => 500 + w
  | _ => 0

def showOTy : Option Ty → Nat
  | none => 0
  | some t => scalarCode t

/-- one registration agrees with the model's `regLoad`. -/
def regEntryOk (cfg : Cfg) (e : String × String × String × String) : Bool :=
  if condHolds cfg e.1 then
    match goType e.2.1, goCodec e.2.2.2 with
    | some t, some c => showOTy (regLoad cfg t e.2.2.1) == showOTy (some c)
    | _, _ => false
  else true

/-- every registration of `RegisterDefaultCodecs`, as read from the source on this
run, is the entry the model's `regLoad` has — under all four option combinations —
and there are exactly 23 of them. -/
theorem default_registry :
    Gen.defaultRegistry.length = 23 ∧
    ∀ pt pa, Gen.defaultRegistry.all (regEntryOk { protoTime := pt, protoArrays := pa }) = true := by
  refine ⟨by decide, ?_⟩
  intro pt pa
  cases pt <;> cases pa <;> decide

/-- the arms of the builder's `reflect.Kind` switch. -/
theorem kind_arms : Gen.kindArms =
    [("reflect.Ptr", ""), ("reflect.Struct", ""), ("reflect.Slice", ""), ("reflect.Map", ""),
     ("reflect.Bool", "bool"), ("reflect.Int", "int"), ("reflect.Int32", "int32"), ("reflect.Int64", "int64"),
     ("reflect.Uint", "uint"), ("reflect.Float32", "float32"), ("reflect.Float64", "float64"),
     ("reflect.String", "string"), ("reflect.Int8", "int8"), ("reflect.Int16", "int16"),
     ("reflect.Uint8", "uint8"), ("reflect.Uint16", "uint16"), ("reflect.Uint32", "uint32"),
     ("reflect.Uint64", "uint64")] := by decide

/-- the basic kinds of the switch resolve, in the model, exactly as the arm says:
a defined type of kind k gets the codec registered for the unnamed basic type. -/
theorem kind_arms_model :
    (Gen.kindArms.filter (·.2 ≠ "")).all (fun a =>
      match goBasic a.2 with
      | some b => showOTy (match build {} (.named "N" (.basic b)) "" with | .ok c => some c | _ => none)
                    == showOTy (regBasic b "")
      | none => false) = true := by decide

/-! ### WireType() of each codec -/

def wtOfGo : String → Option WT
  | "plenccore.WTVarInt" => some .varint | "plenccore.WT64" => some .w64
  | "plenccore.WTLength" => some .len | "plenccore.WTSlice" => some .slice
  | "plenccore.WT32" => some .w32 | _ => none

def tyOfCodecName : String → List Ty
  | "BoolCodec" => [.bool]
  | "Float64Codec" => [.f64]
  | "Float32Codec" => [.f32]
  | "IntCodec" => [.int 8, .int 64]
  | "UintCodec" => [.uint 8, .uint 64, .flat 32]
  | "MapCodec" => [.map .bool .bool false]
  | "ProtoMapCodec" => [.map .bool .bool true]
  | "StringCodec" => [.str false, .str true]
  | "BytesCodec" => [.bytes]
  | "StructCodec" => [.struct "" []]
  | "TimeCodec" => [.time false, .time true]
  | "BaseSliceWrapper" => [.vslice .bool, .fslice .f32, .pslice (.str false)]
  | "WTLengthSliceWrapper" => [.lslice (.str false)]
  | _ => []

/-- each codec's `WireType()` constant, as read from the source, is the model's `Ty.wt`. -/
theorem codec_wire_types :
    Gen.codecWireTypes.all (fun e =>
      match wtOfGo e.2 with
      | some w => (tyOfCodecName e.1).all (fun t => t.wt == w)
      | none => e.1 == "PointerWrapper" && e.2 == "p.Underlying.WireType()") = true := by decide

theorem codec_wire_types_names : Gen.codecWireTypes.map (·.1) =
    ["BoolCodec", "Float64Codec", "Float32Codec", "IntCodec", "UintCodec", "JSONMapCodec", "JSONArrayCodec",
     "MapCodec", "ProtoMapCodec", "StringCodec", "BytesCodec", "StructCodec", "TimeCodec", "PointerWrapper",
     "BaseSliceWrapper", "WTLengthSliceWrapper"] := by decide

end Tie
