#!/usr/bin/env python3
"""seedverify.py <PROP> <mN> [checks...]: confirm a seeded change in its scratch worktree
(/tmp/seed/<PROP>): compiles, suite passes, demo fails with it and passes without it; then
run the given checks against /repo with the patch applied; store everything under
/verif/seeded/<PROP>-<mN>/."""
import subprocess, sys, os, re, json, shutil
prop, m = sys.argv[1], sys.argv[2]
checks = sys.argv[3:] or [prop]
wt = f"/tmp/seed/{prop}"
src = f"/tmp/seed/{prop}.out/{m}"
env = dict(os.environ, GOFLAGS="-mod=mod", GOPROXY="off", GOSUMDB="off", GOTOOLCHAIN="local")
def sh(cmd, cwd=None, timeout=1800):
    return subprocess.run(cmd, shell=True, cwd=cwd, env=env, capture_output=True, text=True, errors='replace', timeout=timeout)
def clean():
    sh("git checkout -- . && git clean -fdq", wt)
clean()
moddemo = None
for cand in (f"{src}/demo", src):
    if not os.path.exists(f"{src}/demo_test.go") and os.path.exists(f"{cand}/main.go") and os.path.exists(f"{cand}/go.mod"):
        moddemo = cand
if moddemo:
    demo = "package main\n"
else:
    demo = open(f"{src}/demo_test.go", errors="replace").read()
pkg = re.search(r"^package (\w+)", demo, re.M).group(1)
pkgdir = {"plenc_test": ".", "plenc": ".", "plenccodec_test": "plenccodec", "plenccodec": "plenccodec", "null": "null", "null_test": "null", "plenccore": "plenccore", "plenccore_test": "plenccore", "main": "cmd/plenctag", "main_test": "cmd/plenctag"}[pkg]
tests = "|".join(re.findall(r"^func (Test\w+)", demo, re.M))
res = {}
def rundemo():
    if moddemo:
        # a stand-alone program with its own go.mod: point its replace at the worktree and run it
        d = f"/tmp/seeddemo-{prop}-{m}"
        sh(f"rm -rf {d} && cp -r {moddemo} {d}")
        gm = open(f"{d}/go.mod").read()
        gm = re.sub(r"(github.com/philpearl/plenc\s*=>\s*)\S+", r"\g<1>" + wt, gm)
        open(f"{d}/go.mod", "w").write(gm)
        if not os.path.exists(f"{d}/go.sum"):
            shutil.copy(f"{wt}/go.sum", f"{d}/go.sum")
        r = sh("go run .", d, timeout=300)
        sh(f"rm -rf {d}")
        return r.returncode == 0
    shutil.copy(f"{src}/demo_test.go", f"{wt}/{pkgdir}/zz_seed_demo_test.go")
    r = sh(f"go test -vet=off -count=1 -run '^({tests})$' ./{pkgdir}/", wt, timeout=300)
    if r.returncode == 0 and prop in ("C07", "C19"):
        # some concurrency demos only fail under the race detector
        r = sh(f"go test -race -vet=off -count=1 -run '^({tests})$' ./{pkgdir}/", wt, timeout=600)
    os.remove(f"{wt}/{pkgdir}/zz_seed_demo_test.go")
    return r.returncode == 0
res["demo_passes_without_change"] = rundemo()
a = sh(f"git apply {src}/patch.diff", wt)
res["patch_applies"] = a.returncode == 0
res["builds"] = sh("go build ./...", wt).returncode == 0
suite_ok = False
suite_fail_names = []
for attempt in range(3):
    r = sh("go test -vet=off -count=1 ./...", wt)
    if r.returncode == 0:
        suite_ok = True; break
    suite_fail_names += re.findall(r"^--- FAIL: (\S+)", r.stdout, re.M)
res["suite_passes_with_change"] = suite_ok
res["suite_failures_seen_before_passing"] = sorted(set(suite_fail_names))
res["demo_fails_with_change"] = not rundemo()
clean()
# our checks against a scratch copy of /repo with the patch applied (never /repo itself:
# a background run may be using it)
det = {}
scratch = f"/tmp/seedrepo-{prop}-{m}"
sh(f"rm -rf {scratch} && rsync -a --exclude .git /repo/ {scratch}/ && patch -s -p1 -d {scratch} < {src}/patch.diff")
env["VERIF_REPO"] = scratch
try:
    for c in checks:
        r = sh(f"cd /verif && ./check {c} --tier quick")
        v = [l for l in r.stdout.splitlines() if l.startswith("VIOLATION")]
        first = None
        if v:
            try:
                d = json.load(open(v[0].split("replay=")[1].split()[0]))
                first = {"kind": d.get("kind"), "op": (d.get("op") or "")[:400], "oracle": [str(x)[:300] for x in (d.get("oracle") or [])][:2], "theorem": d.get("theorem"), "line": v[0].replace("/verif/", "")}
            except Exception as e:
                first = {"line": v[0]}
        det[c] = {"exit": r.returncode, "violations": len(v), "first": first}
finally:
    env.pop("VERIF_REPO", None)
    sh(f"rm -rf {scratch}")
res["checks"] = det
out = f"/verif/seeded/{prop}-{m}"
os.makedirs(out, exist_ok=True)
shutil.copy(f"{src}/patch.diff", out)
if moddemo:
    sh(f"cp -r {moddemo} {out}/demo_module")
else:
    shutil.copy(f"{src}/demo_test.go", out)
meta = {"property": prop, "demo_package_dir": pkgdir, "needs_to_manifest": open(f"{src}/meta.txt", errors="replace").read()[:3000],
        "confirmed": {k: res[k] for k in res if k != "checks"}, "detected_by": {c: d["violations"] > 0 for c, d in det.items()}, "checks": det,
        "what_was_run": f"in scratch worktree {wt}: demo without change; git apply; go build ./...; go test -vet=off -count=1 ./... (TestDescriptor is flaky on the pinned tree too: up to 3 tries); demo with change; then ./check <id> --tier quick for {checks} with VERIF_REPO = a scratch copy of /repo carrying the patch"}
json.dump(meta, open(f"{out}/meta.json", "w"), indent=1)
print(prop, m, {k: res[k] for k in res if k != "checks"}, {c: d["violations"] for c, d in det.items()})
