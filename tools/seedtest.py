#!/usr/bin/env python3
"""seedtest.py <patch.diff> <check-id>...  : apply a seeded change to /repo, run the given
checks (quick tier), report which raise a VIOLATION, and restore /repo. Development aid."""
import subprocess, sys, os
patch = os.path.abspath(sys.argv[1])
checks = sys.argv[2:]
def sh(cmd, **kw): return subprocess.run(cmd, shell=True, capture_output=True, text=True, **kw)
st = sh("git -C /repo status --short")
if st.stdout.strip():
    print("repo not clean:", st.stdout); sys.exit(2)
a = sh(f"git -C /repo apply {patch}")
if a.returncode != 0:
    print("patch does not apply:", a.stderr); sys.exit(2)
try:
    for c in checks:
        r = sh(f"cd /verif && ./check {c} --tier quick", timeout=1800)
        v = [l for l in r.stdout.splitlines() if l.startswith("VIOLATION")]
        print(f"{c}: exit {r.returncode} violations {len(v)}")
        for l in v[:2]:
            print("   ", l)
            path = l.split("replay=")[1].split()[0]
            try:
                import json
                d = json.load(open(path))
                print("      kind:", d.get("kind"), "| op:", (d.get("op") or "")[:300])
                print("      oracle:", str(d.get("oracle"))[:300], "| theorem:", d.get("theorem"))
            except Exception as e:
                print("      (replay unreadable)", e)
finally:
    sh("git -C /repo checkout -- .")
    print("repo restored:", sh("git -C /repo status --short").stdout.strip() or "clean")
