#!/usr/bin/env python3
"""Regenerates MANIFEST.json from the table below + lean/Props/index.json."""
import json, os
ROOT = os.path.dirname(os.path.dirname(os.path.abspath(__file__)))
props = [json.loads(l) for l in open(os.path.join(ROOT, "properties.jsonl"))]
idx = json.load(open(os.path.join(ROOT, "lean/Props/index.json")))

TB = "Trusted: Lean 4.33 kernel; axioms propext, Classical.choice, Quot.sound only (audited per theorem on every run with #print axioms; bv_decide's native axiom accepted in Gen/Tie.lean only); the translator and the correspondence harness; "

CLAIMS = {
 "C01": ("Machine-checked theorem C01.roundtrip (Lean 4, no bound on type depth or value size): for every codec tree the builder can return (Ty.wf), every well-typed value and every option combination, unmarshal (marshal v) into a fresh target = the documented normalisation of v (normPos), by mutual structural induction over types and values; partial only in that the shapes of the known findings are explicit hypotheses (proto-repeated form outside a struct field F02, pointer to pointer F03, top-level pointer type F01, map keys restricted to bool/int/string/structs of those). The model (codec bodies + builder) is hand-written and tied to the Go code on every run by type-directed differential testing (reflect-built, named and recursive types; boundary-biased values; four option combinations), which also confronts normPos itself with the real round trip; parts of the builder are regenerated from source (Gen/Tie.lean).",
         TB + "codec bodies modelled by hand (Plenc/Codec.lean, Build.lean), Go runtime (unsafe layout, map linknames, GC) outside the model.",
         "Lean 4 theorem by mutual structural induction over a hand-written model + differential correspondence run", "§6 C01"),
 "C04": ("Machine-checked theorems C04.read_total / unmarshal_total (Lean 4): for every accepted codec tree, EVERY byte string, every wire type and every well-shaped prior target the model's decoder returns a value or an error — never panic (every slice expression guarded), never hang (every loop advances), consumed <= input — plus linear bounds on loop steps and on elements/entries/bytes allocated per nesting level. The decoder model uses Go-faithful panicking primitives and fuel-bounded loops, and is tied to the repaired Go code by exhaustive short inputs over a hostile alphabet into 22 target types plus mutations/truncations of valid encodings (outcome class and value compared, crash containment by process). Partial: real memory/time are runtime quantities (measured not proved); capacity doubling and the intern table (known finding F05: quadratic allocation on interned fields) are outside the allocation theorem; descriptor-driven decoding is tied by C13's ops.",
         TB + "decoder bodies modelled by hand; binary.Uvarint from its documentation.",
         "Lean 4 totality theorem over Go-faithful panicking primitives + exhaustive-to-small-length differential run", "§6 C04"),
 "C05": ("Machine-checked theorems (Lean 4) for every codec tree, value and tag: Size = length of Append (C05.size_eq_append), framing of tagged length-delimited encodings and one frame per element/entry in the protobuf repeated forms (frame_len, frame_proto_slice, frame_proto_map, frame_plenc_slice, frame_plenc_map), exact consumption on read (scalar_read_exact, C01.roundtrip_consumed) and Skip-exactness of every framed field (field_skip_exact). Tie: Codec.Size/Append/Read called directly on codecs from CodecForType for generated types/values, with nil and non-nil tags, compared with the model. JSON codecs / BQTimestamp covered by their own ops (C16).",
         TB + "codec bodies modelled by hand.",
         "Lean 4 theorems by mutual structural induction + differential correspondence on Codec.Size/Append/Read", "§6 C05"),
 "C15": ("Machine-checked theorems (Lean 4) about a line-by-line model of the JSON outputter state machine incl. string escaping: for every call tree and ARBITRARY byte strings in values and names, Done() equals the spec rendering (done_eq) and parses back (model JSON parser, all standard escapes) to the call tree (done_parses, string_roundtrip for all byte strings); Reset = fresh (reset_fresh). Number/bool/time tokens are a parameter (hypothesis: JSON number grammar / literal / plain quoted string). Tie: byte-exact comparison of every Done() of the real JSONOutput on generated call trees (all 256 byte values, empty containers, every adjacency, Reset/reuse histories on one shared outputter), tokens supplied from strconv/time directly; oracle: encoding/json accepts and parses back.",
         TB + "strconv/time formatting not modelled (token hypothesis); JSON grammar = the model's parser, cross-checked with encoding/json.",
         "Lean 4 theorems (state-machine invariant + parser round trip) + byte-exact differential run", "§6 C15"),
 "C18": ("Machine-checked proof (Lean 4) over all 64-bit values, all field indexes below 2^61, all wire type codes and all byte strings: varint read/append/size agreement and canonical form, zig-zag bijection and size bounds, tag round trip, Skip exact on well-formed fields of every wire type and total (error or in-bounds length, never panic/hang/over-run) on arbitrary bytes. The model is tied to plenccore twice on every run: ZigZag, ZagZig, SizeVarUint, the tag arithmetic and the WireType constants are regenerated from the Go source by the translator and proved equal to the model (Gen/Tie.lean); the loops (AppendVarUint, Skip) and binary.Uvarint are hand-modelled and compared with the real code on boundary-exhaustive, alphabet-exhaustive and random ops.",
         TB + "binary.Uvarint and bits.Len64 modelled from documentation; int = 64 bits.",
         "Lean 4 theorems over a hand-written + source-regenerated model; differential correspondence run", "§6 C18"),
 "C19": ("Machine-checked theorems (Lean 4): sequential — for every input history through one intern table each result equals the plain codec's, is a fresh private copy (provenance labels) and never changes as the table grows; the encoder and the value-level decoder are unaffected by the option anywhere in a codec tree (option_erasure); concurrent — a step-level protocol (atomic load, miss, lock, reload, copy+insert, atomic store, unlock) for any number of goroutines: in every reachable state of every interleaving results equal the requested bytes, published tables satisfy the invariant and only grow, mutual exclusion, no deadlock, canonical results across threads. Tie: decode histories through real interned string and null.String fields (fresh table per op, caller's buffer overwritten, results re-read at the end): strings and sharing structure compared with the model. Partial: atomics/mutex semantics and memory sharing are assumptions of the model (labels), validated only by the harness.",
         TB + "atomic.Load/StorePointer, sync.Mutex semantics assumed by the step model.",
         "Lean 4 invariant proofs over a sequential and a step-level concurrent model + differential decode histories", "§6 C19"),
}
EXTRA = json.load(open(os.path.join(ROOT, "tools/claims_extra.json"))) if os.path.exists(os.path.join(ROOT, "tools/claims_extra.json")) else {}
for k, v in EXTRA.items():
    CLAIMS[k] = tuple(v)

checks = []
for pid in sorted(CLAIMS):
    if pid not in idx: continue
    text, note, tech, ref = CLAIMS[pid]
    checks.append({
        "property_id": pid,
        "quick_cmd": f"./check {pid} --tier quick",
        "thorough_cmd": f"./check {pid} --tier thorough",
        "evidence_file": f"/verif/evidence/{pid}.json",
        "replay_cmd_template": f"./check {pid} --replay {{path}}",
        "engine": "lean-proof+correspondence",
        "level_claimed": {"category": "proof", "text": text, "design_ref": "DESIGN.md " + ref},
        "level_note": note,
        "technique": tech,
    })
claimed = {c["property_id"] for c in checks}
m = {
 "version": 1,
 "setup_cmd": "./setup.sh",
 "hooks": {
   "guard": "verif",
   "enable": "go build -tags verif (the harness module replaces github.com/philpearl/plenc with /repo)",
   "baseline_off_cmd": "cd /repo && GOFLAGS=-mod=mod GOPROXY=off GOSUMDB=off go test -vet=off -count=1 ./...",
   "source_commits": ["3109977", "8124b21", "1caa1db", "c446174", "0740df2", "adb4e9f"],
   "add_only": True
 },
 "engines": [{"name": "lean-proof+correspondence", "path": "/verif/check", "serves_properties": sorted(claimed),
   "kind_free_text": "Lean 4 model + theorems (lean/), translator regenerating definitions from the Go source (translator/), Go harness running the real code and the compiled Lean driver on the same ops (harness/, lean/Driver)"}],
 "checks": checks,
 "not_applicable": [{"property_id": p["id"], "reason": "check not finished yet: model/correspondence exist or are planned (DESIGN.md §6) but no property theorem is registered, so the property is not claimed"} for p in props if p["id"] not in claimed],
 "notes": "All checks: ./check <id> [--tier quick|thorough] [--replay file]; VERIF_SEED selects the PRNG seed. Known findings: known_findings.jsonl."
}
json.dump(m, open(os.path.join(ROOT, "MANIFEST.json"), "w"), indent=1)
print("claimed:", sorted(claimed))
