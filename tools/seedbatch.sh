#!/bin/bash
# seedbatch.sh <mA> <mB>: verify /tmp/seed/<ID>.out/<mX> for all twenty properties against the property's own check
for id in C01 C02 C03 C04 C05 C06 C07 C08 C09 C10 C11 C12 C13 C14 C15 C16 C17 C18 C19 C20; do
  for m in "$@"; do
    mm=$m
    if [ $id = C04 ]; then mm=m$(( ${m#m} + 1 )); fi
    if [ -f /tmp/seed/$id.out/$mm/patch.diff ]; then
      python3 /verif/tools/seedverify.py $id $mm $id 2>&1 | tail -1 | sed 's/{.demo_passes.*demo_fails_with_change.: \(True\|False\)}/conf=\1/'
    else
      echo "$id $mm missing"
    fi
  done
done
