#!/bin/bash
# sweep.sh [ids...]: run the quick checks (default: all twenty); exit 1 if any check exits non-zero or prints VIOLATION
ids="$@"; [ -z "$ids" ] && ids="C01 C02 C03 C04 C05 C06 C07 C08 C09 C10 C11 C12 C13 C14 C15 C16 C17 C18 C19 C20"
bad=0
for p in $ids; do
  st=$(date +%s); /verif/check $p > /tmp/sweep_$p.out 2>&1; rc=$?
  v=$(grep -c VIOLATION /tmp/sweep_$p.out)
  echo "$p exit $rc $(( $(date +%s)-st ))s viol=$v"
  if [ $rc -ne 0 ] || [ $v -ne 0 ]; then bad=1; fi
done
exit $bad
