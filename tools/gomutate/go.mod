module verif/gomutate

go 1.21
