// gomutate: small syntactic mutations of a Go source file (go/ast), one at a time.
//
//	gomutate -file F -list          print the number of mutation sites and one line per site
//	gomutate -file F -n K -out G    write F with the K-th mutation applied to G
//
// Operators: relational (< <= > >= == !=) replaced by a neighbour, && <-> ||,
// + <-> -, integer literals +-1, `!x` -> `x`, `if c` -> `if !c` is covered by the
// relational ones; deletion of a statement that is an assignment, an inc/dec, a
// `continue` or an expression statement (call).
package main

import (
	"bytes"
	"flag"
	"fmt"
	"go/ast"
	"go/parser"
	"go/printer"
	"go/token"
	"os"
	"strconv"
)

type site struct {
	desc  string
	apply func()
	undo  func()
}

func main() {
	file := flag.String("file", "", "")
	list := flag.Bool("list", false, "")
	n := flag.Int("n", -1, "")
	out := flag.String("out", "", "")
	flag.Parse()
	fset := token.NewFileSet()
	f, err := parser.ParseFile(fset, *file, nil, parser.ParseComments)
	if err != nil {
		fmt.Fprintln(os.Stderr, err)
		os.Exit(2)
	}
	var sites []site
	pos := func(p token.Pos) string { return fmt.Sprintf("%d", fset.Position(p).Line) }
	add := func(p token.Pos, d string, ap, un func()) {
		sites = append(sites, site{pos(p) + ": " + d, ap, un})
	}
	rel := map[token.Token][]token.Token{
		token.LSS: {token.LEQ}, token.LEQ: {token.LSS}, token.GTR: {token.GEQ}, token.GEQ: {token.GTR},
		token.EQL: {token.NEQ}, token.NEQ: {token.EQL}, token.LAND: {token.LOR}, token.LOR: {token.LAND},
		token.ADD: {token.SUB}, token.SUB: {token.ADD}, token.SHL: {token.SHR}, token.SHR: {token.SHL},
		token.AND: {token.OR}, token.OR: {token.AND},
	}
	ast.Inspect(f, func(nd ast.Node) bool {
		switch x := nd.(type) {
		case *ast.FuncDecl:
			// leave the verification hooks alone
			if x.Name.Name == "init" {
				return true
			}
		case *ast.BinaryExpr:
			if alts, ok := rel[x.Op]; ok {
				// string concatenation and error text are not interesting
				if bl, ok := x.X.(*ast.BasicLit); ok && bl.Kind == token.STRING {
					return true
				}
				if bl, ok := x.Y.(*ast.BasicLit); ok && bl.Kind == token.STRING {
					return true
				}
				for _, a := range alts {
					orig, a := x.Op, a
					add(x.OpPos, fmt.Sprintf("%s -> %s", orig, a), func() { x.Op = a }, func() { x.Op = orig })
				}
			}
		case *ast.BasicLit:
			if x.Kind == token.INT {
				v, err := strconv.ParseInt(x.Value, 0, 64)
				if err == nil && v >= 0 && v < 1<<31 {
					orig := x.Value
					add(x.ValuePos, fmt.Sprintf("%s -> %d", orig, v+1), func() { x.Value = strconv.FormatInt(v+1, 10) }, func() { x.Value = orig })
					if v > 0 {
						add(x.ValuePos, fmt.Sprintf("%s -> %d", orig, v-1), func() { x.Value = strconv.FormatInt(v-1, 10) }, func() { x.Value = orig })
					}
				}
			}
		case *ast.UnaryExpr:
			if x.Op == token.NOT {
				// !e -> (e == true) is awkward to print; replace by a double negation target: e
				parentFix(f, x, &sites, pos(x.OpPos))
			}
		case *ast.BlockStmt:
			for i, st := range x.List {
				i, st := i, st
				del := false
				switch s := st.(type) {
				case *ast.AssignStmt:
					del = s.Tok != token.DEFINE
				case *ast.IncDecStmt:
					del = true
				case *ast.BranchStmt:
					del = s.Tok == token.CONTINUE
				case *ast.ExprStmt:
					if ce, ok := s.X.(*ast.CallExpr); ok {
						if se, ok := ce.Fun.(*ast.SelectorExpr); ok {
							if id, ok := se.X.(*ast.Ident); ok && id.Name == "verifhook" {
								break
							}
						}
						del = true
					}
				}
				if del {
					add(st.Pos(), "delete statement", func() { x.List[i] = &ast.EmptyStmt{Semicolon: st.Pos(), Implicit: false} }, func() { x.List[i] = st })
				}
			}
		}
		return true
	})
	if *list {
		fmt.Println(len(sites))
		for i, s := range sites {
			fmt.Printf("%d\t%s\n", i, s.desc)
		}
		return
	}
	if *n < 0 || *n >= len(sites) {
		fmt.Fprintln(os.Stderr, "no such site")
		os.Exit(2)
	}
	sites[*n].apply()
	var buf bytes.Buffer
	if err := (&printer.Config{Mode: printer.UseSpaces | printer.TabIndent, Tabwidth: 8}).Fprint(&buf, fset, f); err != nil {
		fmt.Fprintln(os.Stderr, err)
		os.Exit(2)
	}
	if err := os.WriteFile(*out, buf.Bytes(), 0o644); err != nil {
		fmt.Fprintln(os.Stderr, err)
		os.Exit(2)
	}
	fmt.Println(sites[*n].desc)
}

// parentFix registers "drop the negation" for `!e` where it is the condition of an if / for.
func parentFix(f *ast.File, u *ast.UnaryExpr, sites *[]site, line string) {
	ast.Inspect(f, func(nd ast.Node) bool {
		switch p := nd.(type) {
		case *ast.IfStmt:
			if p.Cond == ast.Expr(u) {
				*sites = append(*sites, site{line + ": drop !", func() { p.Cond = u.X }, func() { p.Cond = u }})
			}
		case *ast.ForStmt:
			if p.Cond == ast.Expr(u) {
				*sites = append(*sites, site{line + ": drop !", func() { p.Cond = u.X }, func() { p.Cond = u }})
			}
		}
		return true
	})
}
