package main

import (
	"fmt"
	"math/bits"
	"strconv"
	"strings"
)

var propRunners = map[string]func(r *Runner, g *Gen, tier string) string{}

func scale(tier string, quick, thorough int) int {
	if tier == "thorough" {
		return thorough
	}
	return quick
}

// ---- reference implementations for the oracles (written from the protobuf
// encoding documentation, independent of plenc and of the Lean model) --------

func refVarint(v uint64) []byte {
	var out []byte
	for {
		b := byte(v & 0x7f)
		v >>= 7
		if v != 0 {
			out = append(out, b|0x80)
		} else {
			return append(out, b)
		}
	}
}

func refZigZag(v int64) uint64 {
	if v >= 0 {
		return uint64(v) * 2
	}
	return uint64(-(v+1))*2 + 1
}

func refVarintLen(v uint64) int {
	if v == 0 {
		return 1
	}
	return (bits.Len64(v) + 6) / 7
}

// emitChecked: Emit + the op's oracle.
func (r *Runner) Do(op *Sexp, nontrivial bool, family string) string {
	res := r.Emit(op, nontrivial, family)
	for _, m := range oracleFor(op, res) {
		r.Oracle(op, m)
	}
	r.freshInstanceCheck(op, res)
	return res
}

// freshInstanceCheck: the shared instances of a run have built thousands of
// codecs, filled pools and intern tables; whatever they answer, an instance that
// has seen nothing must answer the same (C10: independent of history; C17: an
// instance is its options and registrations). One op in six is repeated on a
// fresh instance with the same options and registrations.
func (r *Runner) freshInstanceCheck(op *Sexp, res string) {
	switch op.head() {
	case "rt", "enc", "dec", "decm", "laws", "app", "desc", "build", "evolve", "mut", "alias":
	default:
		return
	}
	if len(op.List) < 3 || hash64(op.String())%6 != 0 || strings.HasPrefix(res, "bad-op") {
		return
	}
	cfg := op.List[1]
	freshSeq++
	reg := L(A("reg"), A(hxs("MyI64")), A(hxs(fmt.Sprintf("fresh%d", freshSeq))), A("flat64"))
	var cfg2 *Sexp
	if cfg.IsL {
		if cfg.head() != "cfg" {
			return
		}
		cfg2 = L(append(append([]*Sexp{}, cfg.List...), reg)...)
	} else {
		cfg2 = L(A("cfg"), cfg, reg)
	}
	op2 := L(append([]*Sexp{op.List[0], cfg2}, op.List[2:]...)...)
	res2 := execOp(op2)
	delete(instances, cfg2.String())
	if res2 != res {
		r.Oracle(op, fmt.Sprintf("the result depends on what the instance did before: the run's shared instance gave %s, a fresh instance with the same options gives %s", clip(res, 300), clip(res2, 300)))
	}
}

func clip(s string, n int) string {
	if len(s) > n {
		return s[:n] + "…"
	}
	return s
}

// oracleFor evaluates the property's direct statement on the implementation's
// result for one op. Returns failure messages.
func oracleFor(op *Sexp, res string) []string {
	var fails []string
	bad := func(f string, a ...interface{}) { fails = append(fails, fmt.Sprintf(f, a...)) }
	arg := func(i int) string {
		if i < len(op.List) && !op.List[i].IsL {
			return op.List[i].Atom
		}
		return ""
	}
	fields := strings.Fields(res)
	if res == "panic" {
		return []string{"panic: " + lastPanic}
	}
	if lastHeaderMsg != "" {
		bad("%s", lastHeaderMsg)
	}
	switch op.head() {
	case "alias":
		return oracleAlias(op, res)
	case "world":
		return oracleWorld(op, res)
	case "tagtool":
		return oracleTagtool(op, res)
	case "jrt":
		return oracleJRT(op, res)
	case "jdeep", "tdeep":
		return oracleJDeep(op, res)
	case "build":
		return oracleBuild(op, res)
	case "buildself":
		if res != "err" {
			bad("a type that refers to itself without a struct in between must be rejected with an error, got %q", res)
		}
	case "desc":
		return oracleDesc(op, res)
	case "internsched":
		return oracleInternSched(op, res)
	case "interntrace":
		return oracleInternTrace(op, res)
	case "sched":
		return oracleSched(op, res)
	case "regtrace":
		return oracleRegTrace(op, res)
	case "desccalls":
		return oracleDescJSON(op, lastDescJSON)
	case "descjson":
		return oracleDescJSON(op, res)
	case "jsonout":
		return oracleJSONOut(op, res)
	case "internseq":
		return oracleInternSeq(op, res)
	case "varu":
		v, _ := atoiU(arg(1))
		ref := refVarint(v)
		if len(fields) != 4 {
			return []string{"malformed result"}
		}
		if fields[0] != hx(ref) {
			bad("AppendVarUint(%d) = %s, standard varint is %s", v, fields[0], hx(ref))
		}
		if fields[1] != strconv.Itoa(len(ref)) {
			bad("SizeVarUint(%d) = %s, appended length %d", v, fields[1], len(ref))
		}
		if fields[2] != strconv.FormatUint(v, 10) || fields[3] != strconv.Itoa(len(ref)) {
			bad("ReadVarUint(append(%d)) = (%s,%s)", v, fields[2], fields[3])
		}
	case "vari":
		v, _ := strconv.ParseInt(arg(1), 10, 64)
		ref := refVarint(refZigZag(v))
		if len(fields) != 5 {
			return []string{"malformed result"}
		}
		if fields[0] != hx(ref) {
			bad("AppendVarInt(%d) = %s, want %s", v, fields[0], hx(ref))
		}
		if fields[1] != strconv.Itoa(len(ref)) {
			bad("SizeVarInt(%d) = %s, want %d", v, fields[1], len(ref))
		}
		if fields[2] != strconv.FormatUint(refZigZag(v), 10) {
			bad("ZigZag(%d) = %s", v, fields[2])
		}
		if fields[3] != strconv.FormatInt(v, 10) || fields[4] != strconv.Itoa(len(ref)) {
			bad("ReadVarInt(append(%d)) = (%s,%s)", v, fields[3], fields[4])
		}
	case "bq":
		// size = appended bytes (both forms), tagged = tag ++ body, body = flat varint of the microseconds,
		// read back = the time at microsecond resolution, consuming exactly the body
		sec, _ := strconv.ParseInt(arg(1), 10, 64)
		nsec, _ := strconv.ParseInt(arg(2), 10, 64)
		tag, _ := unhx(arg(3))
		if len(fields) != 9 {
			return []string{"malformed result " + res}
		}
		if sec > 9223372036853 || sec < -9223372036853 {
			return nil // the microsecond count does not fit int64 (time.UnixMicro: undefined): model comparison only
		}
		body := refVarint(uint64(sec*1000000 + nsec/1000))
		if fields[3] != hx(body) {
			bad("body %s, want the flat varint of the microsecond count %s", fields[3], hx(body))
		}
		if fields[1] != hx(append(append([]byte(nil), tag...), body...)) {
			bad("tagged form %s is not tag ++ body", fields[1])
		}
		if fields[0] != strconv.Itoa(len(tag)+len(body)) || fields[2] != strconv.Itoa(len(body)) {
			bad("Size %s / %s, appended %d / %d", fields[0], fields[2], len(tag)+len(body), len(body))
		}
		if want := fmt.Sprintf("ok %d %d %d", sec, nsec/1000*1000, len(body)); strings.Join(fields[5:], " ") != want {
			bad("read back %q, want %q", strings.Join(fields[5:], " "), want)
		}
	case "varucap":
		v, _ := atoiU(arg(1))
		pre, _ := atoiU(arg(2))
		prefix := make([]byte, pre)
		for i := range prefix {
			prefix[i] = byte(0xA0 + i)
		}
		want := hx(append(append([]byte(nil), prefix...), refVarint(v)...)) + " " +
			hx(append(append([]byte(nil), prefix...), refVarint(refZigZag(int64(v)))...)) + " " +
			hx(append(append([]byte(nil), prefix...), refVarint((v>>3&(1<<60-1))<<3|v&7)...))
		if res != want {
			bad("appending to a buffer holding %s bytes with %s spare: got %s want %s", arg(2), arg(3), res, want)
		}
	case "readu":
		d, _ := unhx(arg(1))
		v, n := refUvarint(d)
		if want := fmt.Sprintf("%d %d", v, n); res != want {
			bad("ReadVarUint(%s) = (%s), a base-128 varint reader gives (%s)", arg(1), res, want)
		}
	case "readtag":
		d, _ := unhx(arg(1))
		v, n := refUvarint(d)
		if want := fmt.Sprintf("%d %d %d", v&7, int(v>>3), n); res != want {
			bad("ReadTag(%s) = (%s), want (%s)", arg(1), res, want)
		}
	case "zag":
		v, _ := atoiU(arg(1))
		if len(fields) != 2 || fields[1] != strconv.FormatUint(v, 10) {
			bad("ZigZag(ZagZig(%d)) = %v", v, fields)
		}
	case "tag":
		wt, _ := atoiU(arg(1))
		idx, _ := atoiU(arg(2))
		ref := refVarint(idx<<3 | wt)
		if len(fields) != 5 {
			return []string{"malformed result"}
		}
		if fields[0] != hx(ref) || fields[1] != strconv.Itoa(len(ref)) {
			bad("AppendTag/SizeTag(%d,%d) = %s/%s, want %s", wt, idx, fields[0], fields[1], hx(ref))
		}
		if fields[2] != arg(1) || fields[3] != arg(2) || fields[4] != strconv.Itoa(len(ref)) {
			bad("ReadTag(AppendTag(%d,%d)) = %v", wt, idx, fields[2:])
		}
	case "skip":
		d, _ := unhx(arg(2))
		if fields[0] == "ok" {
			n, _ := strconv.Atoi(fields[1])
			if n > len(d) || n < 0 {
				bad("Skip returned %d for %d bytes of input", n, len(d))
			}
		}
		if arg(1) == "0" {
			// a varint field: exactly what the standard varint reader says (truncated, or more than 64 bits: an error)
			if _, n := refUvarint(d); n > 0 && res != "ok "+strconv.Itoa(n) {
				bad("Skip over a varint of %d bytes returned %q", n, res)
			} else if n <= 0 && res != "err" {
				bad("Skip over a truncated or overflowing varint returned %q, the standard reader rejects it", res)
			}
		}
	case "skipwf":
		// (skipwf wt xFIELD xTRAIL): Skip over a well-formed field returns exactly its length
		d, _ := unhx(arg(2))
		if res != fmt.Sprintf("ok %d", len(d)) {
			bad("Skip over a well-formed field of %d bytes returned %q", len(d), res)
		}
	case "rt":
		c, err := parseCtx(op)
		if err != nil {
			return nil
		}
		v, err := parseVal(op.List[4])
		if err != nil {
			return nil
		}
		nv := normPos(c.td, v, c.tag == "proto")
		want := "ok " + nv.String()
		if res != want {
			if alt, ch := f13Norm(cfgRef(c.cfg).protoArrays, c.td, c.tag, nv); ch && res == "ok "+alt.String() {
				bad("%s: got %s want %s", f13Text, res, want)
			} else {
				bad("round trip differs beyond the documented normalisations: got %s want %s", res, want)
			}
		}
	case "enc":
		c, err := parseCtx(op)
		if err != nil {
			return nil
		}
		v, err := parseVal(op.List[4])
		if err != nil || res == "err" {
			return nil
		}
		if currentProp == "C12" && c.cfg[1] == '1' && c.tag == "" && strings.HasPrefix(res, "ok x") {
			// with the repeated forms on, the output is protobuf: an independent protobuf reader must get the value back
			if out, err := unhx(res[3:]); err == nil {
				fails = append(fails, oraclePB(c.td, v, out, c.cfg[0] == '1')...)
			}
		}
		if multiEntryMaps(v) {
			return fails
		}
		want := "ok " + hx(cfgRef(c.cfg).top(c.td, v, c.tag))
		if res != want {
			bad("Marshal output differs from the documented format: got %s want %s", res, want)
		}
	case "app":
		// (app cfg T tag V xPREFIX cap mode): the result is the caller's prefix followed by exactly the encoding
		c, err := parseCtx(op)
		if err != nil || res == "err" {
			return nil
		}
		v, err := parseVal(op.List[4])
		pre, err2 := unhx(arg(5))
		if err != nil || err2 != nil || !strings.HasPrefix(res, "ok x") {
			return nil
		}
		out, _ := unhx(res[3:])
		if len(out) < len(pre) || hx(out[:len(pre)]) != hx(pre) {
			bad("Marshal changed the %d bytes already in the buffer: got %s", len(pre), res)
		} else if !multiEntryMaps(v) {
			if want := hx(append(append([]byte(nil), pre...), cfgRef(c.cfg).top(c.td, v, c.tag)...)); hx(out) != want {
				bad("Marshal into a buffer holding %d bytes: got %s want %s", len(pre), hx(out), want)
			}
		}
	case "xdec":
		// (xdec cfgE cfgD T V): what one configuration writes the other reads back
		td, e1 := parseTyDef(op.List[3])
		v, e2 := parseVal(op.List[4])
		if e1 != nil || e2 != nil || res == "builderr" {
			return nil
		}
		nv := normPos(td, v, false)
		if want := "ok " + nv.String(); res != want {
			if alt, ch := f13Norm(len(arg(1)) == 2 && arg(1)[1] == '1', td, "", nv); ch && res == "ok "+alt.String() {
				bad("%s: got %s want %s", f13Text, res, want)
			} else {
				bad("value written under options %s read under options %s: got %s want %s", arg(1), arg(2), res, want)
			}
		}
	case "mut":
		// both encodings are functions of the value alone
		c, err := parseCtx(op)
		if err != nil || !strings.HasPrefix(res, "ok ") {
			return nil
		}
		v1, e1 := parseVal(op.List[4])
		v2, e2 := parseVal(op.List[5])
		if e1 != nil || e2 != nil || len(fields) != 3 {
			return nil
		}
		if !multiEntryMaps(v1) {
			if want := hx(cfgRef(c.cfg).top(c.td, v1, c.tag)); fields[1] != want {
				bad("first Marshal: got %s want %s", fields[1], want)
			}
		}
		if !multiEntryMaps(v2) {
			if want := hx(cfgRef(c.cfg).top(c.td, v2, c.tag)); fields[2] != want {
				bad("Marshal after the value was changed in place: got %s want %s (the encoding of the new value)", fields[2], want)
			}
		}
	case "xdecm":
		// (xdecm cfgE cfgD T V PRIOR …): the repeated-field form appends, whichever configuration reads it
		td, e1 := parseTyDef(op.List[3])
		v, e2 := parseVal(op.List[4])
		prior, e3 := parseVal(op.List[5])
		if e1 != nil || e2 != nil || e3 != nil || res == "builderr" || len(arg(1)) != 2 {
			return nil
		}
		if want := "ok " + mergeTop(td, prior, v, arg(1)[1] == '1').String(); res != want {
			bad("value written under options %s read under options %s into a populated target: got %s want %s", arg(1), arg(2), res, want)
		}
	case "evolve":
		// (evolve cfg S S' V PRIOR): fields matched by index, unknown skipped, missing left alone
		td, e1 := parseTyDef(op.List[2])
		td2, e2 := parseTyDef(op.List[3])
		v, e3 := parseVal(op.List[4])
		if e1 != nil || e2 != nil || e3 != nil || res == "builderr" || len(arg(1)) != 2 {
			return nil
		}
		prior := zeroVal(td2)
		if op.List[5].IsL {
			p, err := parseVal(op.List[5])
			if err != nil {
				return nil
			}
			prior = p
		}
		if want := "ok " + mergeTop(td2, prior, project(td, td2, v), arg(1)[1] == '1').String(); res != want {
			bad("data written as S and read as the evolved S': got %s want %s", res, want)
		}
	case "decm":
		c, err := parseCtx(op)
		if err != nil {
			return nil
		}
		v, err := parseVal(op.List[4])
		if err != nil {
			return nil
		}
		prior := zeroVal(c.td)
		if len(op.List) > 5 && op.List[5].IsL {
			prior, err = parseVal(op.List[5])
			if err != nil {
				return nil
			}
		}
		want := "ok " + mergeTop(c.td, prior, v, c.cfg[1] == '1').String()
		if res != want {
			bad("target after Unmarshal breaks the merge rules: got %s want %s", res, want)
		}
	case "lawsz":
		if res == "builderr" {
			return nil
		}
		if len(fields) != 6 || fields[0] != "ok" {
			return []string{"malformed result " + res}
		}
		if fields[1] != fields[2] {
			bad("Size(nil tag) = %s but Append wrote %s bytes (%s elements / entries)", fields[1], fields[2], arg(4))
		}
		if fields[3] != fields[4] {
			bad("Size(tag) = %s but Append(tag) wrote %s bytes (%s elements / entries)", fields[3], fields[4], arg(4))
		}
		if fields[5] != "same" {
			bad("Marshal then Unmarshal of %s elements / entries: %s", arg(4), fields[5])
		}
	case "latereg":
		if res != "ok same" {
			bad("registering a codec after a failed first use: %s", res)
		}
	case "jdescdeep":
		var outLen, inLen int
		if _, err := fmt.Sscanf(res, "ok %d %d", &outLen, &inLen); err != nil {
			return []string{"descriptor walk of nested arrays: " + res}
		}
		if outLen > 64*inLen+4096 {
			bad("F22 the JSON rendering of %d input bytes (arrays nested %s deep) is %d bytes: every line is indented by its depth, so output and memory grow with the square of the nesting depth", inLen, arg(1), outLen)
		}
	case "entriespresent":
		// never more than it was told, never more than one per byte of the body
		d, _ := unhx(arg(1))
		mx, _ := atoiU(arg(2))
		n, err := strconv.ParseUint(strings.TrimPrefix(res, "ok "), 10, 64)
		if err != nil || n > mx || n > uint64(len(d)) {
			bad("entriesPresent(%d bytes, max %d) = %s", len(d), mx, res)
		}
	case "descconc", "jconc", "regintern", "entryorder", "reginterntag", "regmapkind", "gcptrs", "unwrap", "jalias", "regselfhist", "pkgreg":
		if res != "ok" {
			bad("%s: %s", op.head(), res)
		}
	case "bqptr":
		if res != "ok" {
			bad("BQTimestampCodec behind a nil pointer / as a map key over several decodes: %s", res)
		}
	case "ptrkeys":
		if res != "ok" {
			bad("maps with pointer keys decoded on one instance: %s", res)
		}
	case "internmany":
		if res != "ok wrong=0" {
			bad("decoding many distinct values through one interned field: %s", res)
		}
	case "declong":
		if !strings.HasPrefix(res, "ok same=true ") {
			bad("a long value did not come back: %s", res)
		} else if !strings.Contains(res, " within=true ") {
			bad("allocation while decoding a long input is not within a fixed multiple of its length: %s", res)
		}
	case "deschost", "jhost", "jhostdesc":
		if res != "err" && !strings.HasPrefix(res, "ok") && res != "builderr" {
			bad("decode outcome %q", res)
		}
	case "dec", "decdeep":
		if res != "err" && !strings.HasPrefix(res, "ok ") && res != "builderr" {
			bad("decode outcome %q", res)
		}
		if lastDecValid && lastDecAlloc > lastDecBound {
			bad("allocated %d bytes while decoding %d input bytes (bound for this target type: %d)", lastDecAlloc, len(arg(4))/2, lastDecBound)
		}
		if res == "err" && op.head() == "decdeep" {
			// an error below d struct levels names every level once, outermost first, and unwraps level by level
			n := strings.Count(lastDecErr, "failed reading ") + strings.Count(lastDecErr, "failed to skip ")
			if lastDecErrChain < n || lastDecErrChain > n+3 {
				bad("the error message names %d levels but the error unwraps in %d steps", n, lastDecErrChain)
			}
			if n > 0 && !strings.HasPrefix(lastDecErr, "failed reading ") {
				bad("the error message does not start with the outermost level: %s", clip(lastDecErr, 120))
			}
		}
	case "laws":
		// size == len(append), with and without tag; framing
		if len(fields) < 5 {
			return []string{"malformed result " + res}
		}
		body, _ := unhx(fields[1])
		tagged, _ := unhx(fields[3])
		if fields[0] != strconv.Itoa(len(body)) {
			bad("Size(nil tag) = %s but Append wrote %d bytes", fields[0], len(body))
		}
		if fields[2] != strconv.Itoa(len(tagged)) {
			bad("Size(tag) = %s but Append wrote %d bytes", fields[2], len(tagged))
		}
	}
	return fails
}

// ---- C18 ---------------------------------------------------------------------

func init() { propRunners["C18"] = runC18 }

func runC18(r *Runner, g *Gen, tier string) string {
	trails := []string{"x", "x00", "xff", "x8001"}
	// every bit-length boundary, exhaustively
	for _, v := range u64Bounds {
		for _, t := range trails[:2] {
			r.Do(L(A("varu"), A(strconv.FormatUint(v, 10)), A(t)), v >= 128, "varu.boundary")
		}
		r.Do(L(A("zag"), A(strconv.FormatUint(v, 10))), true, "zag.boundary")
	}
	for _, v := range i64Bounds {
		r.Do(L(A("vari"), A(strconv.FormatInt(v, 10)), A("x")), v != 0, "vari.boundary")
	}
	// appends into buffers with every small amount of spare capacity (in-place fast paths)
	for _, v := range u64Bounds {
		for spare := 0; spare <= 12; spare++ {
			r.Do(L(A("varucap"), A(strconv.FormatUint(v, 10)), A(strconv.Itoa(int(v%3))), A(strconv.Itoa(spare))), true, "varucap.boundary")
		}
	}
	n := scale(tier, 20000, 2000000)
	for i := 0; i < n; i++ {
		v := g.r.U64() >> uint(g.r.Intn(64))
		r.Do(L(A("varu"), A(strconv.FormatUint(v, 10)), A(trails[g.r.Intn(4)])), v >= 128, "varu.random")
		r.Do(L(A("vari"), A(strconv.FormatInt(int64(g.r.U64())>>uint(g.r.Intn(64)), 10)), A(trails[g.r.Intn(4)])), true, "vari.random")
		if i%4 == 0 {
			r.Do(L(A("zag"), A(strconv.FormatUint(g.r.U64()>>uint(g.r.Intn(64)), 10))), true, "zag.random")
		}
	}
	// tags: all wire types x index boundaries
	idxs := []uint64{0, 1, 2, 15, 16, 127, 128, 2047, 2048, 1<<14 - 1, 1 << 14, 1<<21 - 1, 1 << 21, 1<<28 - 1, 1 << 28, 1<<35 - 1, 1<<60 - 1}
	for wt := 0; wt < 6; wt++ {
		for _, idx := range idxs {
			r.Do(L(A("tag"), A(strconv.Itoa(wt)), A(strconv.FormatUint(idx, 10)), A("x")), true, "tag.boundary")
		}
	}
	for i := 0; i < scale(tier, 5000, 500000); i++ {
		idx := g.r.U64() >> uint(4+g.r.Intn(60))
		r.Do(L(A("tag"), A(strconv.Itoa(g.r.Intn(6))), A(strconv.FormatUint(idx, 10)), A(trails[g.r.Intn(4)])), true, "tag.random")
	}
	// raw reads of arbitrary bytes (binary.Uvarint conventions: n=0, n<0)
	alphabet := []byte{0x00, 0x01, 0x02, 0x7f, 0x80, 0x81, 0xff, 0x08, 0x0a, 0x12, 0x1b}
	maxLen := scale(tier, 4, 5)
	var rec func(prefix []byte)
	rec = func(prefix []byte) {
		r.Do(L(A("readu"), A(hx(prefix))), len(prefix) > 0, "readu.exhaustive")
		r.Do(L(A("readtag"), A(hx(prefix))), len(prefix) > 0, "readtag.exhaustive")
		for wt := 0; wt < 8; wt++ {
			r.Do(L(A("skip"), A(strconv.Itoa(wt)), A(hx(prefix))), len(prefix) > 0, "skip.exhaustive")
		}
		if len(prefix) >= maxLen {
			return
		}
		for _, b := range alphabet {
			rec(append(append([]byte(nil), prefix...), b))
		}
	}
	rec(nil)
	// long varints: 9, 10, 11, 12 continuation bytes
	for n := 8; n <= 12; n++ {
		for _, last := range []byte{0x00, 0x01, 0x02, 0x7f, 0x80} {
			d := make([]byte, n)
			for i := range d {
				d[i] = 0xff
			}
			d = append(d, last)
			r.Do(L(A("readu"), A(hx(d))), true, "readu.long")
			r.Do(L(A("readtag"), A(hx(d))), true, "readu.long")
			for wt := 0; wt < 6; wt++ {
				r.Do(L(A("skip"), A(strconv.Itoa(wt)), A(hx(d))), true, "skip.long")
			}
		}
	}
	// lengths and counts around 2^63 / 2^64 (int conversion and overflow)
	hugeVals := []uint64{1<<63 - 12, 1<<63 - 1, 1 << 63, 1<<63 + 1, ^uint64(0) - 10, ^uint64(0), 1 << 62, 1<<31 - 1, 1 << 32}
	for _, hv := range hugeVals {
		h := refVarint(hv)
		for _, tail := range [][]byte{nil, {0}, {1, 2, 3}, refVarint(hv)} {
			r.Do(L(A("skip"), A("2"), A(hx(cat(h, tail)))), true, "skip.huge")
			for _, count := range []uint64{1, 2, 3} {
				d := cat(refVarint(count), cat(h, tail))
				r.Do(L(A("skip"), A("3"), A(hx(d))), true, "skip.huge")
				d2 := cat(refVarint(count), cat([]byte{1, 0x41}, cat(h, tail)))
				r.Do(L(A("skip"), A("3"), A(hx(d2))), true, "skip.huge")
			}
			r.Do(L(A("skip"), A("3"), A(hx(cat(h, tail)))), true, "skip.huge")
		}
	}
	// Skip over well-formed fields of every wire type (+ trailing data), and every truncation
	for i := 0; i < scale(tier, 3000, 200000); i++ {
		wt, field := g.wellFormedField()
		trail := g.r.Bytes(g.r.Intn(4))
		r.Do(L(A("skipwf"), A(strconv.Itoa(wt)), A(hx(field)), A(hx(trail))), true, "skip.wellformed")
		if len(field) > 0 {
			cut := g.r.Intn(len(field))
			r.Do(L(A("skip"), A(strconv.Itoa(wt)), A(hx(field[:cut]))), true, "skip.truncated")
			// length mutation
			m := append([]byte(nil), field...)
			m[g.r.Intn(len(m))] ^= byte(1 << uint(g.r.Intn(8)))
			r.Do(L(A("skip"), A(strconv.Itoa(wt)), A(hx(m))), true, "skip.mutated")
		}
	}
	return "boundary values 2^k, 2^k±1 for every k<64 (exhaustive), random 64-bit values with random bit length, all 6 wire types x index boundaries, every byte string up to the tier's length over an 11-byte alphabet for ReadVarUint/ReadTag/Skip (exhaustive), well-formed fields of every wire type with trailing data, truncations and bit flips; non-trivial = multi-byte varint / non-empty input; distinct = distinct op text"
}

// wellFormedField builds a field payload of a random wire type the way the
// format prescribes (reference encoder, not plenc's).
func (g *Gen) wellFormedField() (int, []byte) {
	switch g.r.Intn(5) {
	case 0:
		return 0, refVarint(g.u64())
	case 1:
		return 1, g.r.Bytes(8)
	case 2:
		return 5, g.r.Bytes(4)
	case 3:
		body := g.r.Bytes(g.r.Pick3(0, 5, 200))
		return 2, append(refVarint(uint64(len(body))), body...)
	}
	n := g.r.Intn(5)
	out := refVarint(uint64(n))
	for i := 0; i < n; i++ {
		body := g.r.Bytes(g.r.Pick3(0, 3, 130))
		out = append(out, refVarint(uint64(len(body)))...)
		out = append(out, body...)
	}
	return 3, out
}

func (r *RNG) Pick3(a, b, c int) int {
	switch r.Intn(4) {
	case 0:
		return a
	case 3:
		return c
	}
	return r.Intn(b + 1)
}

// refUvarint: little-endian base-128 with the conventions ReadVarUint documents
// by delegating to encoding/binary: (0, 0) when the input ends inside the varint,
// (0, -(i+1)) when byte i makes the value overflow 64 bits (a tenth byte above 1,
// or an eleventh byte).
func refUvarint(d []byte) (uint64, int) {
	var v uint64
	for i, b := range d {
		if i == 10 {
			return 0, -(i + 1)
		}
		if b < 0x80 {
			if i == 9 && b > 1 {
				return 0, -(i + 1)
			}
			return v | uint64(b)<<(7*uint(i)), i + 1
		}
		v |= uint64(b&0x7f) << (7 * uint(i))
	}
	return 0, 0
}
