package main

import (
	"encoding/binary"
	"fmt"
)

// An independent protobuf reader (C12). It knows nothing of plenc: it reads
// STANDARD protobuf wire format — tags with a field number >= 1 and wire types
// 0, 1, 2, 5 only, exact lengths — and interprets the fields by the mapping the
// property states: sint64 (zig-zag) for signed integers, uint64 varints for
// unsigned ones and bools, int64 varints for `flat` integers, fixed32/fixed64
// floats, bytes for strings and []byte, nested messages for structs, packed
// repeated scalars, repeated length-delimited elements, maps as repeated
// {key = 1, value = 2} entries and times as google.protobuf.Timestamp
// {seconds = 1 (int64), nanos = 2 (int32)}. The value it reconstructs from
// Marshal's output under both proto options must be the value that was encoded.

// pbNullTimeZigzag: read null.Time the way plenc writes it under ProtoCompatibleTime (finding F15)
var pbNullTimeZigzag bool

type pbErr struct{ msg string }

func (e pbErr) Error() string { return e.msg }

func pbFail(f string, a ...interface{}) error { return pbErr{fmt.Sprintf(f, a...)} }

// pbSupported: struct-rooted types all of whose maps are proto-tagged (the
// property's "and map fields tagged proto"), no defined types with their own
// registrations.
func pbSupported(t *TyDef, opt string, field bool) bool {
	switch t.K {
	case "named":
		if t.Elem.K == "time" {
			return true
		}
		return pbSupported(t.Elem, opt, field)
	case "ptr":
		return pbSupported(t.Elem, opt, field)
	case "slice":
		if t.isBytes() {
			return true
		}
		return pbSupported(t.Elem, "", false)
	case "map":
		return field && opt == "proto" && pbSupported(t.Key, "", false) && pbSupported(t.Elem, "", false)
	case "struct":
		for _, f := range t.Fields {
			if !fieldEncoded(f) {
				continue
			}
			_, fopt := splitTag(f.Plenc)
			if !pbSupported(f.T, fopt, true) {
				return false
			}
		}
		return true
	case "bad":
		return false
	}
	return true
}

func pbVarint(d []byte) (uint64, int, error) {
	var v uint64
	for i := 0; i < len(d) && i < 10; i++ {
		v |= uint64(d[i]&0x7f) << (7 * uint(i))
		if d[i] < 0x80 {
			if i == 9 && d[i] > 1 {
				return 0, 0, pbFail("varint overflows 64 bits")
			}
			return v, i + 1, nil
		}
	}
	return 0, 0, pbFail("truncated or over-long varint")
}

type pbField struct {
	num  uint64
	wt   int
	v    uint64 // wire types 0, 1, 5
	data []byte // wire type 2
}

func pbFields(d []byte) ([]pbField, error) {
	var out []pbField
	for len(d) > 0 {
		tag, n, err := pbVarint(d)
		if err != nil {
			return nil, err
		}
		d = d[n:]
		f := pbField{num: tag >> 3, wt: int(tag & 7)}
		if f.num == 0 {
			return nil, pbFail("field number 0 (a tag byte %#x): not a legal protobuf field number", tag)
		}
		if f.num > 1<<29-1 {
			return nil, pbFail("field number %d beyond 2^29-1", f.num)
		}
		switch f.wt {
		case 0:
			f.v, n, err = pbVarint(d)
			if err != nil {
				return nil, err
			}
			d = d[n:]
		case 1:
			if len(d) < 8 {
				return nil, pbFail("truncated fixed64")
			}
			f.v = binary.LittleEndian.Uint64(d)
			d = d[8:]
		case 5:
			if len(d) < 4 {
				return nil, pbFail("truncated fixed32")
			}
			f.v = uint64(binary.LittleEndian.Uint32(d))
			d = d[4:]
		case 2:
			l, n, err := pbVarint(d)
			if err != nil {
				return nil, err
			}
			d = d[n:]
			if l > uint64(len(d)) {
				return nil, pbFail("length %d exceeds the %d bytes that remain", l, len(d))
			}
			f.data = d[:l]
			d = d[l:]
		default:
			return nil, pbFail("wire type %d (field %d) does not exist in protobuf", f.wt, f.num)
		}
		out = append(out, f)
	}
	return out, nil
}

func pbZag(u uint64) int64 { return int64(u>>1) ^ -int64(u&1) }

// pbScalar: one scalar from its wire value.
func pbScalar(t *TyDef, opt string, wt int, v uint64) (*Val, error) {
	k := t.under().K
	switch k {
	case "bool":
		if wt != 0 {
			return nil, pbFail("bool with wire type %d", wt)
		}
		return &Val{K: "b", B: v != 0}, nil
	case "int", "int8", "int16", "int32", "int64":
		if wt != 0 {
			return nil, pbFail("integer with wire type %d", wt)
		}
		if opt == "flat" {
			// an intN field: a protobuf reader keeps the low N bits (negative int32 values may be
			// written sign-extended to 64 bits or not, both read the same)
			w := uint(bitsOf(k))
			return &Val{K: "i", I: int64(v<<(64-w)) >> (64 - w)}, nil
		}
		return &Val{K: "i", I: pbZag(v)}, nil
	case "uint", "uint8", "uint16", "uint32", "uint64":
		if wt != 0 {
			return nil, pbFail("unsigned integer with wire type %d", wt)
		}
		return &Val{K: "u", U: v}, nil
	case "f64":
		if wt != 1 {
			return nil, pbFail("float64 with wire type %d", wt)
		}
		return &Val{K: "f64", U: v}, nil
	case "f32":
		if wt != 5 {
			return nil, pbFail("float32 with wire type %d", wt)
		}
		return &Val{K: "f32", U: v}, nil
	}
	return nil, pbFail("not a scalar: %s", k)
}

func pbIsScalar(t *TyDef) bool {
	switch t.under().K {
	case "bool", "int", "int8", "int16", "int32", "int64", "uint", "uint8", "uint16", "uint32", "uint64", "f32", "f64":
		return true
	}
	return false
}

func pbTimestamp(d []byte, protoTime bool) (*Val, error) {
	fs, err := pbFields(d)
	if err != nil {
		return nil, err
	}
	if len(d) == 0 {
		return zeroVal(&TyDef{K: "time"}), nil // an empty message is the type's zero value (Go's zero time)
	}
	out := &Val{K: "T"}
	for _, f := range fs {
		if f.wt != 0 {
			return nil, pbFail("Timestamp field %d with wire type %d", f.num, f.wt)
		}
		switch f.num {
		case 1:
			if protoTime {
				out.Sec = int64(f.v)
			} else {
				out.Sec = pbZag(f.v)
			}
		case 2:
			if protoTime {
				out.Nsec = int64(int32(f.v))
			} else {
				out.Nsec = pbZag(f.v)
			}
		}
	}
	return out, nil
}

// pbValue: the value of type t carried by ONE occurrence of a field (or element).
func pbValue(t *TyDef, opt string, f pbField, protoTime bool) (*Val, error) {
	switch t.K {
	case "named":
		if t.Elem.K == "time" {
			return &Val{K: "r"}, nil
		}
		if t.Elem.K == "slice" && t.Elem.isBytes() {
			// a defined type over []byte is a slice of uint8 like any other: packed varints
			if f.wt != 2 {
				return nil, pbFail("packed field with wire type %d", f.wt)
			}
			out := &Val{K: "y"}
			for d := f.data; len(d) > 0; {
				v, n, err := pbVarint(d)
				if err != nil {
					return nil, err
				}
				out.Data = append(out.Data, byte(v))
				d = d[n:]
			}
			return out, nil
		}
		return pbValue(t.Elem, opt, f, protoTime)
	case "ptr":
		in, err := pbValue(t.Elem, opt, f, protoTime)
		if err != nil {
			return nil, err
		}
		return &Val{K: "p", P: in}, nil
	case "ext":
		pt := protoTime
		if t.Name == "null.Time" && pbNullTimeZigzag {
			pt = false
		}
		in, err := pbValue(extPayload[t.Name], "", f, pt)
		if err != nil {
			return nil, err
		}
		return &Val{K: "p", P: in}, nil
	case "str":
		if f.wt != 2 {
			return nil, pbFail("string with wire type %d", f.wt)
		}
		return &Val{K: "s", Data: f.data}, nil
	case "time":
		if f.wt != 2 {
			return nil, pbFail("time with wire type %d", f.wt)
		}
		return pbTimestamp(f.data, protoTime)
	case "struct":
		if f.wt != 2 {
			return nil, pbFail("message with wire type %d", f.wt)
		}
		return pbMessage(t, f.data, protoTime)
	case "slice":
		if f.wt != 2 {
			return nil, pbFail("bytes / packed field with wire type %d", f.wt)
		}
		if t.isBytes() {
			return &Val{K: "y", Data: f.data}, nil
		}
		// packed scalars (possibly pointers to scalars)
		et := t.Elem
		ptr := false
		if et.under().K == "ptr" {
			et, ptr = et.under().Elem, true
		} else if et.under().K == "ext" {
			et, ptr = extPayload[et.under().Name], true
		}
		if !pbIsScalar(et) {
			return nil, pbFail("a slice of length-delimited elements inside one length-delimited value")
		}
		out := &Val{K: "l"}
		d := f.data
		for len(d) > 0 {
			var x *Val
			var err error
			switch et.under().K {
			case "f64":
				if len(d) < 8 {
					return nil, pbFail("truncated packed fixed64")
				}
				x, err = pbScalar(et, "", 1, binary.LittleEndian.Uint64(d))
				d = d[8:]
			case "f32":
				if len(d) < 4 {
					return nil, pbFail("truncated packed fixed32")
				}
				x, err = pbScalar(et, "", 5, uint64(binary.LittleEndian.Uint32(d)))
				d = d[4:]
			default:
				v, n, e := pbVarint(d)
				if e != nil {
					return nil, e
				}
				x, err = pbScalar(et, opt, 0, v)
				d = d[n:]
			}
			if err != nil {
				return nil, err
			}
			if ptr {
				x = &Val{K: "p", P: x}
			}
			out.L = append(out.L, x)
		}
		return out, nil
	}
	if pbIsScalar(t) {
		return pbScalar(t, opt, f.wt, f.v)
	}
	return nil, pbFail("unsupported type %s", t.K)
}

// pbRepeated: the field is written once per element.
func pbRepeated(t *TyDef) bool {
	u := t
	for u.K == "named" || u.K == "ptr" {
		if u.K == "named" && u.Elem.K == "time" {
			return false
		}
		u = u.Elem
	}
	if u.K != "slice" || u.isBytes() {
		return false
	}
	e := u.Elem
	for e.K == "named" || e.K == "ptr" || e.K == "ext" {
		if e.K == "named" && e.Elem.K == "time" {
			return true
		}
		if e.K == "ext" {
			e = extPayload[e.Name]
			continue
		}
		e = e.Elem
	}
	return !pbIsScalar(e)
}

func pbMessage(t *TyDef, d []byte, protoTime bool) (*Val, error) {
	fs, err := pbFields(d)
	if err != nil {
		return nil, err
	}
	out := &Val{K: "r"}
	type slot struct {
		f   *FieldDef
		opt string
		pos int
	}
	byNum := map[uint64]slot{}
	for _, f := range t.Fields {
		if !fieldEncoded(f) {
			continue
		}
		n, fopt := splitTag(f.Plenc)
		if fopt == "intern" {
			fopt = ""
		}
		byNum[uint64(n)] = slot{f, fopt, len(out.L)}
		out.L = append(out.L, zeroVal(f.T))
	}
	for _, f := range fs {
		s, ok := byNum[f.num]
		if !ok {
			return nil, pbFail("field number %d is not a field of the message", f.num)
		}
		ft := s.f.T
		u := ft
		wrap := 0 // pointers around a repeated / map field
		for u.K == "named" || u.K == "ptr" {
			if u.K == "named" && u.Elem.K == "time" {
				break
			}
			if u.K == "ptr" {
				wrap++
			}
			u = u.Elem
		}
		cur := out.L[s.pos]
		switch {
		case u.K == "map":
			if f.wt != 2 {
				return nil, pbFail("map entry with wire type %d", f.wt)
			}
			efs, err := pbFields(f.data)
			if err != nil {
				return nil, err
			}
			k, v := zeroVal(u.Key), zeroVal(u.Elem)
			for _, ef := range efs {
				switch ef.num {
				case 1:
					if k, err = pbValue(u.Key, "", ef, protoTime); err != nil {
						return nil, err
					}
				case 2:
					if v, err = pbValue(u.Elem, "", ef, protoTime); err != nil {
						return nil, err
					}
				default:
					return nil, pbFail("map entry with field number %d", ef.num)
				}
			}
			if cur.K != "m" {
				cur = &Val{K: "m"}
			}
			replaced := false
			for i, e := range cur.M {
				if e[0].String() == k.String() {
					cur.M[i][1], replaced = v, true
				}
			}
			if !replaced {
				cur.M = append(cur.M, [2]*Val{k, v})
			}
			out.L[s.pos] = cur
		case pbRepeated(ft):
			e, err := pbValue(u.Elem, "", f, protoTime)
			if err != nil {
				return nil, err
			}
			list := cur
			for i := 0; i < wrap; i++ {
				if list.P == nil {
					list = &Val{K: "l"}
					break
				}
				list = list.P
			}
			list = &Val{K: "l", L: append(append([]*Val{}, list.L...), e)}
			for i := 0; i < wrap; i++ {
				list = &Val{K: "p", P: list}
			}
			out.L[s.pos] = list
		default:
			v, err := pbValue(ft, s.opt, f, protoTime)
			if err != nil {
				return nil, err
			}
			out.L[s.pos] = v
		}
	}
	return out, nil
}

// oraclePB: Marshal output under both proto options, read as protobuf.
func oraclePB(td *TyDef, v *Val, data []byte, protoTime bool) []string {
	if td.K != "struct" || !pbSupported(td, "", false) {
		return nil
	}
	got, err := pbMessage(td, data, protoTime)
	if err != nil {
		if pe, ok := err.(pbErr); ok && len(pe.msg) > 14 && pe.msg[:14] == "field number 0" {
			return []string{"F16 the output is not standard protobuf: " + pe.msg + " (plenc accepts the index 0)"}
		}
		return []string{"the output is not standard protobuf wire format: " + err.Error()}
	}
	nv := normPos(td, v, false)
	if alt, ch := f13Norm(true, td, "", nv); ch {
		nv = alt
	}
	if got.String() != nv.String() && protoTime {
		pbNullTimeZigzag = true
		again, err := pbMessage(td, data, protoTime)
		pbNullTimeZigzag = false
		if err == nil && again.String() == nv.String() {
			return []string{"F15 a null.Time under ProtoCompatibleTime is written with zig-zag varints, not as a protobuf Timestamp: read as standard protobuf got " + clip(got.String(), 300) + " want " + clip(nv.String(), 300)}
		}
	}
	if got.String() != nv.String() {
		return []string{"read as standard protobuf (zig-zag sint64, packed scalars, repeated elements, map entries, Timestamp) the output is not the value: got " + clip(got.String(), 600) + " want " + clip(nv.String(), 600)}
	}
	return nil
}
