package main

import "fmt"

// Boundary-sized bodies: length prefixes change width when a body is 127/128 or
// 16383/16384 bytes long. A body of exactly such a size only arises by
// construction, so these cases are built: an inner struct with a string (or
// byte slice) field whose length is solved for so that the struct's own
// encoding has the target size, or so that body + tag has it (a length prefix
// computed from the wrong quantity differs exactly there), nested so that the
// inner length prefix sits inside further length-prefixed frames.

// every size from a dozen bytes below the boundary to a few above it: a frame a
// few bytes larger than the solved body (a map entry: key field + value tag +
// length; a slice element; body + tag) then lands exactly on the boundary too
var boundaryTargets = func() []int {
	var out []int
	for _, b := range []int{128, 16384} {
		for d := -14; d <= 3; d++ {
			out = append(out, b+d)
		}
	}
	return out
}()

func (g *Gen) boundaryCase(cfg string) (*TyDef, *Val) {
	idx := func() string { return fmt.Sprint(g.r.Pick("1", "2", "3", "15", "16", "17", "200", "2047", "2048")) }
	// inner struct: a stretchable field plus up to two scalar fields
	stretch := B("str")
	if g.r.P(25) {
		stretch = Slice(B("uint8"))
	}
	used := map[string]bool{}
	pick := func() string {
		for {
			i := idx()
			if !used[i] {
				used[i] = true
				return i
			}
		}
	}
	fs := []*FieldDef{F("S", pick(), stretch)}
	for k := g.r.Intn(3); k > 0; k-- {
		fs = append(fs, F(fmt.Sprintf("A%d", k), pick(), g.r.PickT(B("int"), B("bool"), B("f64"), B("uint16"), Ptr(B("int")))))
	}
	if g.r.Bool() {
		fs[0], fs[len(fs)-1] = fs[len(fs)-1], fs[0]
	}
	inner := Struct(fs...)
	b := 10
	v := g.Value(inner, &b)
	si := 0
	for i, f := range inner.Fields {
		if f.Name == "S" {
			si = i
		}
	}
	target := boundaryTargets[g.r.Intn(len(boundaryTargets))]
	if g.r.P(2) && g.bigBodies < 6 {
		// the next width of a length prefix: 3 -> 4 bytes at 2^21 (a two-megabyte body: at most six per
		// run — each op is 4 MB of text; in proportion to the op count the thorough tier wrote gigabytes)
		g.bigBodies++
		target = 2097150 + g.r.Intn(5)
	}
	enc := cfgRef(cfg)
	for iter := 0; iter < 4; iter++ {
		cur := len(enc.top(inner, v, ""))
		if cur == target {
			break
		}
		n := len(v.L[si].Data) + target - cur
		if n < 0 {
			n = 0
		}
		d := make([]byte, n)
		for i := range d {
			d[i] = byte('a' + i%26)
		}
		v.L[si] = &Val{K: v.L[si].K, Data: d}
		if stretch.K != "str" {
			v.L[si].K = "y"
		} else {
			v.L[si].K = "s"
		}
	}
	g.count("boundary.body" + fmt.Sprint(len(enc.top(inner, v, ""))))
	// nest it
	wrapT, wrapV := inner, v
	depth := 1 + g.r.Intn(3)
	for d := 0; d < depth; d++ {
		switch g.r.Intn(8) {
		case 6, 7:
			// a proto-tagged map (repeated entries, each with its own tag and length)
			k := g.r.Pick("k", "", "key", "0123456789")
			wrapT = Struct(&FieldDef{Name: "PM", Exported: true, Plenc: idx() + ",proto", T: Map(B("str"), wrapT)})
			wrapV = &Val{K: "r", L: []*Val{{K: "m", M: [][2]*Val{{{K: "s", Data: []byte(k)}, wrapV}}}}}
		case 0, 1, 2:
			wrapT, wrapV = Struct(F("X", idx(), wrapT)), &Val{K: "r", L: []*Val{wrapV}}
		case 3:
			wrapT, wrapV = Struct(F("L", idx(), Slice(wrapT))), &Val{K: "r", L: []*Val{{K: "l", L: []*Val{wrapV}}}}
		case 4:
			wrapT, wrapV = Struct(F("M", idx(), Map(B("str"), wrapT))), &Val{K: "r", L: []*Val{{K: "m", M: [][2]*Val{{{K: "s", Data: []byte("k")}, wrapV}}}}}
		case 5:
			wrapT, wrapV = Struct(F("P", idx(), Ptr(wrapT))), &Val{K: "r", L: []*Val{{K: "p", P: wrapV}}}
		}
	}
	return wrapT, wrapV
}

// sample: a generated (type, value) pair; a share of them boundary-sized.
func (g *Gen) sample(cfg string, depth int) (*TyDef, *Val) {
	if g.r.P(8) {
		return g.boundaryCase(cfg)
	}
	t := g.topType(depth)
	b := 40
	return t, g.Value(t, &b)
}
