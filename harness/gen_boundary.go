package main

import (
	"fmt"
	"strings"
)

// Boundary-sized bodies: length prefixes change width when a body is 127/128 or
// 16383/16384 bytes long. A body of exactly such a size only arises by
// construction, so these cases are built: an inner struct with a string (or
// byte slice) field whose length is solved for so that the struct's own
// encoding has the target size, or so that body + tag has it (a length prefix
// computed from the wrong quantity differs exactly there), nested so that the
// inner length prefix sits inside further length-prefixed frames.

// every size from a dozen bytes below the boundary to a few above it: a frame a
// few bytes larger than the solved body (a map entry: key field + value tag +
// length; a slice element; body + tag) then lands exactly on the boundary too
var boundaryTargets = func() []int {
	var out []int
	for _, b := range []int{128, 16384} {
		for d := -14; d <= 3; d++ {
			out = append(out, b+d)
		}
	}
	return out
}()

func (g *Gen) boundaryCase(cfg string) (*TyDef, *Val) {
	idx := func() string { return fmt.Sprint(g.r.Pick("1", "2", "3", "15", "16", "17", "200", "2047", "2048")) }
	// inner struct: a stretchable field plus up to two scalar fields
	stretch := B("str")
	if g.r.P(25) {
		stretch = Slice(B("uint8"))
	}
	used := map[string]bool{}
	pick := func() string {
		for {
			i := idx()
			if !used[i] {
				used[i] = true
				return i
			}
		}
	}
	fs := []*FieldDef{F("S", pick(), stretch)}
	for k := g.r.Intn(3); k > 0; k-- {
		fs = append(fs, F(fmt.Sprintf("A%d", k), pick(), g.r.PickT(B("int"), B("bool"), B("f64"), B("uint16"), Ptr(B("int")))))
	}
	if g.r.Bool() {
		fs[0], fs[len(fs)-1] = fs[len(fs)-1], fs[0]
	}
	inner := Struct(fs...)
	b := 10
	v := g.Value(inner, &b)
	si := 0
	for i, f := range inner.Fields {
		if f.Name == "S" {
			si = i
		}
	}
	target := boundaryTargets[g.r.Intn(len(boundaryTargets))]
	if g.r.P(2) && g.bigBodies < 6 {
		// the next width of a length prefix: 3 -> 4 bytes at 2^21 (a two-megabyte body: at most six per
		// run — each op is 4 MB of text; in proportion to the op count the thorough tier wrote gigabytes)
		g.bigBodies++
		target = 2097150 + g.r.Intn(5)
	}
	enc := cfgRef(cfg)
	for iter := 0; iter < 4; iter++ {
		cur := len(enc.top(inner, v, ""))
		if cur == target {
			break
		}
		n := len(v.L[si].Data) + target - cur
		if n < 0 {
			n = 0
		}
		d := make([]byte, n)
		for i := range d {
			d[i] = byte('a' + i%26)
		}
		v.L[si] = &Val{K: v.L[si].K, Data: d}
		if stretch.K != "str" {
			v.L[si].K = "y"
		} else {
			v.L[si].K = "s"
		}
	}
	g.count("boundary.body" + fmt.Sprint(len(enc.top(inner, v, ""))))
	// nest it
	wrapT, wrapV := inner, v
	depth := 1 + g.r.Intn(3)
	for d := 0; d < depth; d++ {
		switch g.r.Intn(8) {
		case 6, 7:
			// a proto-tagged map (repeated entries, each with its own tag and length)
			k := g.r.Pick("k", "", "key", "0123456789")
			wrapT = Struct(&FieldDef{Name: "PM", Exported: true, Plenc: idx() + ",proto", T: Map(B("str"), wrapT)})
			wrapV = &Val{K: "r", L: []*Val{{K: "m", M: [][2]*Val{{{K: "s", Data: []byte(k)}, wrapV}}}}}
		case 0, 1, 2:
			wrapT, wrapV = Struct(F("X", idx(), wrapT)), &Val{K: "r", L: []*Val{wrapV}}
		case 3:
			wrapT, wrapV = Struct(F("L", idx(), Slice(wrapT))), &Val{K: "r", L: []*Val{{K: "l", L: []*Val{wrapV}}}}
		case 4:
			wrapT, wrapV = Struct(F("M", idx(), Map(B("str"), wrapT))), &Val{K: "r", L: []*Val{{K: "m", M: [][2]*Val{{{K: "s", Data: []byte("k")}, wrapV}}}}}
		case 5:
			wrapT, wrapV = Struct(F("P", idx(), Ptr(wrapT))), &Val{K: "r", L: []*Val{{K: "p", P: wrapV}}}
		}
	}
	return wrapT, wrapV
}

// sample: a generated (type, value) pair; a share of them boundary-sized.
func (g *Gen) sample(cfg string, depth int) (*TyDef, *Val) {
	if g.r.P(8) {
		return g.boundaryCase(cfg)
	}
	if g.r.P(3) {
		return g.protoEdge()
	}
	t := g.topType(depth)
	b := 40
	return t, g.Value(t, &b)
}

// protoEdge: the protobuf repeated form around its special cases: elements that write nothing by
// themselves (nil pointers, zero times, empty strings and structs) and therefore get an empty
// element, under field indexes with one-, two- and three-byte tags, nested so that the enclosing
// struct is length-prefixed (its prefix is computed by Size, its body written by Append).
func (g *Gen) protoEdge() (*TyDef, *Val) {
	idx := g.r.Pick("1", "15", "16", "17", "2047", "2048", "70000")
	el := Struct(F("A", "1", B("int")), F("S", "2", B("str")))
	var et *TyDef
	var mk func(k int) *Val
	nilOr := func(v *Val, k int) *Val {
		if k%2 == 1 {
			return &Val{K: "p"}
		}
		return &Val{K: "p", P: v}
	}
	switch g.r.Intn(6) {
	case 0:
		et, mk = Ptr(B("str")), func(k int) *Val { return nilOr(&Val{K: "s", Data: []byte("x")}, k) }
	case 1:
		et, mk = Ptr(el), func(k int) *Val { return nilOr(&Val{K: "r", L: []*Val{{K: "i", I: int64(k)}, {K: "s"}}}, k) }
	case 2:
		et, mk = &TyDef{K: "time"}, func(k int) *Val {
			if k%2 == 1 {
				return zeroVal(&TyDef{K: "time"})
			}
			return &Val{K: "T", Sec: 1700000000 + int64(k), Nsec: 7}
		}
	case 3:
		et, mk = B("str"), func(k int) *Val { return &Val{K: "s", Data: []byte(strings.Repeat("y", k%2))} }
	case 4:
		et, mk = el, func(k int) *Val { return &Val{K: "r", L: []*Val{{K: "i", I: int64(k % 2)}, {K: "s"}}} }
	default:
		et, mk = Ptr(&TyDef{K: "time"}), func(k int) *Val { return nilOr(zeroVal(&TyDef{K: "time"}), k) }
	}
	l := &Val{K: "l"}
	for k, n := 0, 1+g.r.Intn(4); k < n; k++ {
		l.L = append(l.L, mk(k+g.r.Intn(2)))
	}
	t := Struct(&FieldDef{Name: "L", Exported: true, Plenc: idx + ",proto", T: Slice(et)}, F("Z", "3", B("int")))
	v := &Val{K: "r", L: []*Val{l, {K: "i", I: 5}}}
	for d := 1 + g.r.Intn(2); d > 0; d-- {
		switch g.r.Intn(3) {
		case 0:
			t, v = Struct(F("N", g.r.Pick("1", "16", "300"), t), F("T", "2", B("str"))), &Val{K: "r", L: []*Val{v, {K: "s", Data: []byte("tail")}}}
		case 1:
			t, v = Struct(F("S", "4", Slice(t))), &Val{K: "r", L: []*Val{{K: "l", L: []*Val{v, v}}}}
		default:
			t, v = Struct(F("M", "2", Map(B("str"), t))), &Val{K: "r", L: []*Val{{K: "m", M: [][2]*Val{{{K: "s", Data: []byte("k")}, v}}}}}
		}
	}
	return t, v
}
