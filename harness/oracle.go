package main

// Independent statement of the documented round-trip normalisations (C01's
// allowed differences), written from README.md and the property text, not from
// the model: used as the search oracle on the implementation.

func isVarintKind(t *TyDef) bool {
	t = t.under()
	switch t.K {
	case "bool", "int", "int8", "int16", "int32", "int64", "uint", "uint8", "uint16", "uint32", "uint64":
		return true
	}
	return false
}

// omitted: the value has no wire presence in a plain position (zero value, with
// -0 counting as zero, empty slice, nil pointer, nil map).
func omitted(t *TyDef, v *Val) bool {
	switch v.K {
	case "b":
		return !v.B
	case "i":
		return v.I == 0
	case "u":
		return v.U == 0
	case "f32":
		return v.U&0x7FFFFFFF == 0
	case "f64":
		return v.U&0x7FFFFFFFFFFFFFFF == 0
	case "s", "y":
		return len(v.Data) == 0
	case "T":
		return v.Sec == -62135596800 && v.Nsec == 0
	case "p":
		return v.P == nil
	case "l":
		return len(v.L) == 0
	case "mn":
		return true
	}
	return false
}

// normPos normalises a value sitting in a position with zero-omission (struct
// field, map key or value, top level). proto: the field carries the proto option.
func normPos(t *TyDef, v *Val, proto bool) *Val {
	if omitted(t, v) {
		return zeroVal(t)
	}
	if proto && v.K == "m" && len(v.M) == 0 {
		return &Val{K: "mn"}
	}
	return normIn(t, v)
}

func normIn(t *TyDef, v *Val) *Val {
	switch t.K {
	case "ext":
		if v.P == nil {
			return v
		}
		return &Val{K: "p", P: normIn(extPayload[t.Name], v.P)}
	case "named":
		if t.Elem.K == "time" {
			return v
		}
		return normIn(t.Elem, v)
	case "ptr":
		if v.P == nil {
			return v
		}
		return &Val{K: "p", P: normIn(t.Elem, v.P)}
	case "slice":
		if t.isBytes() {
			return v
		}
		out := &Val{K: "l"}
		for _, e := range v.L {
			eu := t.Elem.under()
			var pointee *TyDef
			if eu.K == "ptr" {
				pointee = eu.Elem
			} else if eu.K == "ext" {
				pointee = extPayload[eu.Name] // an invalid null value is an absent entry, as a nil pointer is
			}
			if pointee != nil && e.P == nil {
				if isVarintKind(pointee) {
					continue // nil entries of integer pointer slices are dropped
				}
				out.L = append(out.L, &Val{K: "p", P: zeroVal(pointee)})
				continue
			}
			out.L = append(out.L, normIn(t.Elem, e))
		}
		return out
	case "map":
		if v.K == "mn" {
			return v
		}
		out := &Val{K: "m"}
		for _, e := range v.M {
			out.M = append(out.M, [2]*Val{normPos(t.Key, e[0], false), normPos(t.Elem, e[1], false)})
		}
		return out
	case "struct":
		out := &Val{K: "r"}
		j := 0
		for _, f := range t.Fields {
			if !fieldEncoded(f) {
				continue
			}
			out.L = append(out.L, normPos(f.T, v.L[j], hasOpt(f.Plenc, "proto")))
			j++
		}
		return out
	}
	return v
}

func hasOpt(tag, opt string) bool {
	for i := 0; i < len(tag); i++ {
		if tag[i] == ',' {
			return tag[i+1:] == opt
		}
	}
	return false
}

// multiEntryMaps: the value contains a map with two or more entries (so the
// encoding is determined only up to entry order).
func multiEntryMaps(v *Val) bool {
	if v == nil {
		return false
	}
	if v.K == "m" && len(v.M) > 1 {
		return true
	}
	if multiEntryMaps(v.P) {
		return true
	}
	for _, e := range v.L {
		if multiEntryMaps(e) {
			return true
		}
	}
	for _, e := range v.M {
		if multiEntryMaps(e[0]) || multiEntryMaps(e[1]) {
			return true
		}
	}
	return false
}

// ---- merge rules (C10), written from the property text: the expected content of
// a target that held `prior` after Unmarshal of Marshal(v) -------------------------

// protoRepeated: the slice/map at this position is written in the repeated form
func protoRepeated(t *TyDef, opt string, protoArrays bool) bool {
	u := t.under()
	if u.K == "slice" && !u.isBytes() {
		e := refEnc{protoArrays: protoArrays}
		return e.wt(u.Elem, "") == 2 && (protoArrays || opt == "proto")
	}
	return false
}

// mergeTop: top level. Data that encodes to nothing leaves structs and maps
// untouched and resets everything else to its zero value.
func mergeTop(t *TyDef, prior, v *Val, protoArrays bool) *Val {
	if omitted(t, v) {
		k := t.under().K
		if k == "struct" || k == "map" {
			return prior
		}
		return zeroVal(t)
	}
	return mergeIn(t, prior, v, "", protoArrays)
}

// mergeField: a struct field: absent from the data → prior kept.
func mergeField(t *TyDef, prior, v *Val, opt string, protoArrays bool) *Val {
	if omitted(t, v) {
		return prior
	}
	if opt == "proto" && v.K == "m" && len(v.M) == 0 {
		return prior // an empty proto map writes nothing
	}
	return mergeIn(t, prior, v, opt, protoArrays)
}

// mergeIn: the value is present in the data.
func mergeIn(t *TyDef, prior, v *Val, opt string, protoArrays bool) *Val {
	switch t.K {
	case "named":
		if t.Elem.K == "time" {
			return v
		}
		return mergeIn(t.Elem, prior, v, opt, protoArrays)
	case "ext":
		if v.P == nil {
			return prior
		}
		return &Val{K: "p", P: normIn(extPayload[t.Name], v.P)}
	case "ptr":
		if v.P == nil {
			return prior
		}
		target := zeroVal(t.Elem)
		if prior != nil && prior.K == "p" && prior.P != nil {
			target = prior.P
		}
		return &Val{K: "p", P: mergeIn(t.Elem, target, v.P, opt, protoArrays)}
	case "slice":
		if t.isBytes() {
			return v
		}
		nv := normIn(t, v)
		if protoRepeated(t, opt, protoArrays) {
			out := &Val{K: "l"}
			if prior != nil {
				out.L = append(out.L, prior.L...)
			}
			out.L = append(out.L, nv.L...)
			return out
		}
		return nv
	case "map":
		out := &Val{K: "m"}
		if prior != nil && prior.K == "m" {
			out.M = append(out.M, prior.M...)
		}
		for _, e := range v.M {
			k := normPos(t.Key, e[0], false)
			var existing *Val
			pos := -1
			for i, pe := range out.M {
				if pe[0].String() == k.String() {
					existing, pos = pe[1], i
				}
			}
			var nv *Val
			if omitted(t.Elem, e[1]) {
				nv = zeroVal(t.Elem) // an absent value is stored as the zero value
			} else {
				if existing == nil {
					existing = zeroVal(t.Elem)
				}
				nv = mergeIn(t.Elem, existing, e[1], "", protoArrays)
			}
			if pos >= 0 {
				out.M[pos] = [2]*Val{out.M[pos][0], nv}
			} else {
				out.M = append(out.M, [2]*Val{k, nv})
			}
		}
		return out
	case "struct":
		out := &Val{K: "r"}
		j := 0
		for _, f := range t.Fields {
			if !fieldEncoded(f) {
				continue
			}
			_, fopt := splitTag(f.Plenc)
			var pf *Val
			if prior != nil && prior.K == "r" && j < len(prior.L) {
				pf = prior.L[j]
			} else {
				pf = zeroVal(f.T)
			}
			out.L = append(out.L, mergeField(f.T, pf, v.L[j], fopt, protoArrays))
			j++
		}
		return out
	}
	return normIn(t, v)
}

// f13Norm: finding F13. In the protobuf repeated form (ProtoCompatibleArrays, or a
// `proto` tag) a list with no elements writes nothing, so a struct field holding a
// non-nil pointer to an EMPTY slice of length-delimited elements encodes to nothing
// and reads back as a nil pointer. Returns v with exactly those pointers made nil,
// and whether there was one.
func f13Norm(protoArrays bool, t *TyDef, opt string, v *Val) (*Val, bool) {
	u := t.under()
	switch u.K {
	case "ptr":
		if v.P == nil {
			return v, false
		}
		eu := u.Elem.under()
		e := refEnc{protoArrays: protoArrays}
		if eu.K == "slice" && !eu.isBytes() && e.wt(eu.Elem, "") == 2 && (protoArrays || opt == "proto") && v.P.K == "l" && len(v.P.L) == 0 {
			return &Val{K: "p"}, true
		}
		in, ch := f13Norm(protoArrays, u.Elem, "", v.P)
		return &Val{K: "p", P: in}, ch
	case "slice":
		if u.isBytes() || v.K != "l" {
			return v, false
		}
		out, any := &Val{K: "l"}, false
		for _, x := range v.L {
			y, ch := f13Norm(protoArrays, u.Elem, "", x)
			out.L = append(out.L, y)
			any = any || ch
		}
		return out, any
	case "map":
		if v.K != "m" {
			return v, false
		}
		out, any := &Val{K: "m"}, false
		for _, e := range v.M {
			y, ch := f13Norm(protoArrays, u.Elem, "", e[1])
			out.M = append(out.M, [2]*Val{e[0], y})
			any = any || ch
		}
		return out, any
	case "struct":
		if u.K != "struct" || v.K != "r" {
			return v, false
		}
		out, any := &Val{K: "r"}, false
		j := 0
		for _, f := range u.Fields {
			if !fieldEncoded(f) {
				continue
			}
			if j >= len(v.L) {
				return v, false
			}
			_, fopt := splitTag(f.Plenc)
			y, ch := f13Norm(protoArrays, f.T, fopt, v.L[j])
			out.L = append(out.L, y)
			any = any || ch
			j++
		}
		return out, any
	}
	return v, false
}

const f13Text = "F13 a non-nil pointer to an empty slice of length-delimited elements has no representation in the protobuf repeated form and reads back nil"
