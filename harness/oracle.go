package main

// Independent statement of the documented round-trip normalisations (C01's
// allowed differences), written from README.md and the property text, not from
// the model: used as the search oracle on the implementation.

func isVarintKind(t *TyDef) bool {
	t = t.under()
	switch t.K {
	case "bool", "int", "int8", "int16", "int32", "int64", "uint", "uint8", "uint16", "uint32", "uint64":
		return true
	}
	return false
}

// omitted: the value has no wire presence in a plain position (zero value, with
// -0 counting as zero, empty slice, nil pointer, nil map).
func omitted(t *TyDef, v *Val) bool {
	switch v.K {
	case "b":
		return !v.B
	case "i":
		return v.I == 0
	case "u":
		return v.U == 0
	case "f32":
		return v.U&0x7FFFFFFF == 0
	case "f64":
		return v.U&0x7FFFFFFFFFFFFFFF == 0
	case "s", "y":
		return len(v.Data) == 0
	case "T":
		return v.Sec == -62135596800 && v.Nsec == 0
	case "p":
		return v.P == nil
	case "l":
		return len(v.L) == 0
	case "mn":
		return true
	}
	return false
}

// normPos normalises a value sitting in a position with zero-omission (struct
// field, map key or value, top level). proto: the field carries the proto option.
func normPos(t *TyDef, v *Val, proto bool) *Val {
	if omitted(t, v) {
		return zeroVal(t)
	}
	if proto && v.K == "m" && len(v.M) == 0 {
		return &Val{K: "mn"}
	}
	return normIn(t, v)
}

func normIn(t *TyDef, v *Val) *Val {
	switch t.K {
	case "ext":
		if v.P == nil {
			return v
		}
		return &Val{K: "p", P: normIn(extPayload[t.Name], v.P)}
	case "named":
		if t.Elem.K == "time" {
			return v
		}
		return normIn(t.Elem, v)
	case "ptr":
		if v.P == nil {
			return v
		}
		return &Val{K: "p", P: normIn(t.Elem, v.P)}
	case "slice":
		if t.isBytes() {
			return v
		}
		out := &Val{K: "l"}
		for _, e := range v.L {
			if t.Elem.under().K == "ptr" && e.P == nil {
				if isVarintKind(t.Elem.under().Elem) {
					continue // nil entries of integer pointer slices are dropped
				}
				out.L = append(out.L, &Val{K: "p", P: zeroVal(t.Elem.under().Elem)})
				continue
			}
			out.L = append(out.L, normIn(t.Elem, e))
		}
		return out
	case "map":
		if v.K == "mn" {
			return v
		}
		out := &Val{K: "m"}
		for _, e := range v.M {
			out.M = append(out.M, [2]*Val{normPos(t.Key, e[0], false), normPos(t.Elem, e[1], false)})
		}
		return out
	case "struct":
		out := &Val{K: "r"}
		j := 0
		for _, f := range t.Fields {
			if !fieldEncoded(f) {
				continue
			}
			out.L = append(out.L, normPos(f.T, v.L[j], hasOpt(f.Plenc, "proto")))
			j++
		}
		return out
	}
	return v
}

func hasOpt(tag, opt string) bool {
	for i := 0; i < len(tag); i++ {
		if tag[i] == ',' {
			return tag[i+1:] == opt
		}
	}
	return false
}

// multiEntryMaps: the value contains a map with two or more entries (so the
// encoding is determined only up to entry order).
func multiEntryMaps(v *Val) bool {
	if v == nil {
		return false
	}
	if v.K == "m" && len(v.M) > 1 {
		return true
	}
	if multiEntryMaps(v.P) {
		return true
	}
	for _, e := range v.L {
		if multiEntryMaps(e) {
			return true
		}
	}
	for _, e := range v.M {
		if multiEntryMaps(e[0]) || multiEntryMaps(e[1]) {
			return true
		}
	}
	return false
}
