package main

import (
	"fmt"
	"reflect"
	"strconv"
	"time"
	"unsafe"

	"github.com/unravelin/null"
)

// TyDef mirrors the model's `TyDef` (lean/Plenc/Build.lean).
type TyDef struct {
	K      string // basic kind name, "time", "named", "ptr", "slice", "map", "struct", "bad"
	Name   string // named: type name; struct: type name ("" for reflect.StructOf); bad: kind
	Elem   *TyDef
	Key    *TyDef
	Fields []*FieldDef
	rt     reflect.Type
}

type FieldDef struct {
	Name     string
	Exported bool
	Plenc    string // "" = no plenc key
	JSON     string // "" = no json key
	T        *TyDef
}

var basicTypes = map[string]reflect.Type{
	"bool": reflect.TypeOf(false),
	"int":  reflect.TypeOf(int(0)), "int8": reflect.TypeOf(int8(0)), "int16": reflect.TypeOf(int16(0)),
	"int32": reflect.TypeOf(int32(0)), "int64": reflect.TypeOf(int64(0)),
	"uint": reflect.TypeOf(uint(0)), "uint8": reflect.TypeOf(uint8(0)), "uint16": reflect.TypeOf(uint16(0)),
	"uint32": reflect.TypeOf(uint32(0)), "uint64": reflect.TypeOf(uint64(0)),
	"f32": reflect.TypeOf(float32(0)), "f64": reflect.TypeOf(float64(0)), "str": reflect.TypeOf(""),
}

var kindToBasic = map[reflect.Kind]string{
	reflect.Bool: "bool", reflect.Int: "int", reflect.Int8: "int8", reflect.Int16: "int16",
	reflect.Int32: "int32", reflect.Int64: "int64", reflect.Uint: "uint", reflect.Uint8: "uint8",
	reflect.Uint16: "uint16", reflect.Uint32: "uint32", reflect.Uint64: "uint64",
	reflect.Float32: "f32", reflect.Float64: "f64", reflect.String: "str",
}

var badTypes = map[string]reflect.Type{
	"complex64":  reflect.TypeOf(complex64(0)),
	"complex128": reflect.TypeOf(complex128(0)),
	"array":      reflect.TypeOf([2]int{}),
	"chan":       reflect.TypeOf(make(chan int)),
	"func":       reflect.TypeOf(func() {}),
	"iface":      reflect.TypeOf((*interface{})(nil)).Elem(),
	"uintptr":    reflect.TypeOf(uintptr(0)),
	"unsafeptr":  reflect.TypeOf(unsafe.Pointer(nil)),
}

var timeType = reflect.TypeOf(time.Time{})

// library struct types known by name (package null)
var extTypes = map[string]reflect.Type{
	"null.Int":    reflect.TypeOf(null.Int{}),
	"null.Bool":   reflect.TypeOf(null.Bool{}),
	"null.Float":  reflect.TypeOf(null.Float{}),
	"null.String": reflect.TypeOf(null.String{}),
	"null.Time":   reflect.TypeOf(null.Time{}),
}

// extPayload: the payload type of a null.X (the model treats null.X as a pointer to it)
var extPayload = map[string]*TyDef{
	"null.Int": {K: "int64"}, "null.Bool": {K: "bool"}, "null.Float": {K: "f64"},
	"null.String": {K: "str"}, "null.Time": {K: "time"},
}

func Ext(name string) *TyDef { return &TyDef{K: "ext", Name: name} }

func isBasic(k string) bool { _, ok := basicTypes[k]; return ok }

func B(k string) *TyDef             { return &TyDef{K: k} }
func Ptr(t *TyDef) *TyDef           { return &TyDef{K: "ptr", Elem: t} }
func Slice(t *TyDef) *TyDef         { return &TyDef{K: "slice", Elem: t} }
func Map(k, v *TyDef) *TyDef        { return &TyDef{K: "map", Key: k, Elem: v} }
func Struct(fs ...*FieldDef) *TyDef { return &TyDef{K: "struct", Fields: fs} }
func F(name, plenc string, t *TyDef) *FieldDef {
	return &FieldDef{Name: name, Exported: true, Plenc: plenc, T: t}
}

func (t *TyDef) Sexp() *Sexp {
	switch t.K {
	case "time":
		return A("time")
	case "named":
		return L(A("named"), A(hxs(t.Name)), t.Elem.Sexp())
	case "ptr":
		return L(A("ptr"), t.Elem.Sexp())
	case "slice":
		return L(A("slice"), t.Elem.Sexp())
	case "map":
		return L(A("map"), t.Key.Sexp(), t.Elem.Sexp())
	case "bad":
		return L(A("bad"), A(t.Name))
	case "ext":
		return L(A("ext"), A(hxs(t.Name)))
	case "struct":
		items := []*Sexp{A("struct"), A(hxs(t.Name))}
		for _, f := range t.Fields {
			e := "0"
			if f.Exported {
				e = "1"
			}
			items = append(items, L(A("f"), A(hxs(f.Name)), A(e), A(hxs(f.Plenc)), A(hxs(f.JSON)), f.T.Sexp()))
		}
		return L(items...)
	}
	return A(t.K)
}

func parseTyDef(s *Sexp) (*TyDef, error) {
	if !s.IsL {
		if s.Atom == "time" || isBasic(s.Atom) {
			return &TyDef{K: s.Atom}, nil
		}
		return nil, fmt.Errorf("bad type atom %q", s.Atom)
	}
	switch s.head() {
	case "named":
		n, err := unhx(s.List[1].Atom)
		if err != nil {
			return nil, err
		}
		e, err := parseTyDef(s.List[2])
		if err != nil {
			return nil, err
		}
		return &TyDef{K: "named", Name: string(n), Elem: e}, nil
	case "ptr", "slice":
		e, err := parseTyDef(s.List[1])
		if err != nil {
			return nil, err
		}
		return &TyDef{K: s.head(), Elem: e}, nil
	case "map":
		k, err := parseTyDef(s.List[1])
		if err != nil {
			return nil, err
		}
		e, err := parseTyDef(s.List[2])
		if err != nil {
			return nil, err
		}
		return &TyDef{K: "map", Key: k, Elem: e}, nil
	case "bad":
		return &TyDef{K: "bad", Name: s.List[1].Atom}, nil
	case "ext":
		n, err := unhx(s.List[1].Atom)
		if err != nil {
			return nil, err
		}
		return &TyDef{K: "ext", Name: string(n)}, nil
	case "struct":
		n, err := unhx(s.List[1].Atom)
		if err != nil {
			return nil, err
		}
		t := &TyDef{K: "struct", Name: string(n)}
		for _, fs := range s.List[2:] {
			if fs.head() != "f" || len(fs.List) != 6 {
				return nil, fmt.Errorf("bad field")
			}
			name, e1 := unhx(fs.List[1].Atom)
			pt, e2 := unhx(fs.List[3].Atom)
			js, e3 := unhx(fs.List[4].Atom)
			if e1 != nil || e2 != nil || e3 != nil {
				return nil, fmt.Errorf("bad field hex")
			}
			ft, err := parseTyDef(fs.List[5])
			if err != nil {
				return nil, err
			}
			t.Fields = append(t.Fields, &FieldDef{Name: string(name), Exported: fs.List[2].Atom == "1",
				Plenc: string(pt), JSON: string(js), T: ft})
		}
		return t, nil
	}
	return nil, fmt.Errorf("bad type %s", s)
}

func structTag(f *FieldDef) reflect.StructTag {
	s := ""
	if f.Plenc != "" {
		s += `plenc:` + strconv.Quote(f.Plenc)
	}
	if f.JSON != "" {
		if s != "" {
			s += " "
		}
		s += `json:` + strconv.Quote(f.JSON)
	}
	return reflect.StructTag(s)
}

// RT returns the Go type for a definition. Named types and named structs come
// from the static registry (static.go); everything else is built with reflect.
func (t *TyDef) RT() (rt reflect.Type, err error) {
	if t.rt != nil {
		return t.rt, nil
	}
	defer func() {
		if r := recover(); r != nil {
			err = fmt.Errorf("reflect: %v", r)
		}
		if err == nil {
			t.rt = rt
		}
	}()
	switch t.K {
	case "time":
		return timeType, nil
	case "named":
		st, ok := staticTypes[t.Name]
		if !ok {
			return nil, fmt.Errorf("unknown named type %q", t.Name)
		}
		return st, nil
	case "ptr":
		e, err := t.Elem.RT()
		if err != nil {
			return nil, err
		}
		return reflect.PointerTo(e), nil
	case "slice":
		e, err := t.Elem.RT()
		if err != nil {
			return nil, err
		}
		return reflect.SliceOf(e), nil
	case "map":
		k, err := t.Key.RT()
		if err != nil {
			return nil, err
		}
		e, err := t.Elem.RT()
		if err != nil {
			return nil, err
		}
		return reflect.MapOf(k, e), nil
	case "ext":
		et, ok := extTypes[t.Name]
		if !ok {
			return nil, fmt.Errorf("unknown ext type %q", t.Name)
		}
		return et, nil
	case "bad":
		bt, ok := badTypes[t.Name]
		if !ok {
			return nil, fmt.Errorf("unknown bad kind %q", t.Name)
		}
		return bt, nil
	case "struct":
		if t.Name != "" {
			st, ok := staticTypes[t.Name]
			if !ok {
				return nil, fmt.Errorf("unknown static struct %q", t.Name)
			}
			return st, nil
		}
		var sfs []reflect.StructField
		for _, f := range t.Fields {
			ft, err := f.T.RT()
			if err != nil {
				return nil, err
			}
			sf := reflect.StructField{Name: f.Name, Type: ft, Tag: structTag(f)}
			if !f.Exported {
				sf.PkgPath = "verif/harness"
			}
			sfs = append(sfs, sf)
		}
		return reflect.StructOf(sfs), nil
	}
	if bt, ok := basicTypes[t.K]; ok {
		return bt, nil
	}
	return nil, fmt.Errorf("unknown kind %q", t.K)
}

// fieldEncoded is the harness's own statement of which fields plenc encodes:
// exported, with a plenc tag other than "-". (Independent of the model's build.)
func fieldEncoded(f *FieldDef) bool {
	return f.Exported && f.Plenc != "" && f.Plenc != "-"
}

// FromRT derives the definition of a static Go type, unfolding recursive
// references `depth` levels; below that a struct is cut to a field-less struct
// (whose pointers / slices the value generator keeps nil / empty).
func FromRT(rt reflect.Type, depth int) *TyDef {
	if rt == timeType {
		return &TyDef{K: "time", rt: rt}
	}
	for n, et := range extTypes {
		if rt == et {
			return &TyDef{K: "ext", Name: n, rt: rt}
		}
	}
	named := rt.Name() != "" && rt.PkgPath() != ""
	var under *TyDef
	switch rt.Kind() {
	case reflect.Ptr:
		under = &TyDef{K: "ptr", Elem: FromRT(rt.Elem(), depth)}
	case reflect.Slice:
		under = &TyDef{K: "slice", Elem: FromRT(rt.Elem(), depth)}
	case reflect.Map:
		under = &TyDef{K: "map", Key: FromRT(rt.Key(), depth), Elem: FromRT(rt.Elem(), depth)}
	case reflect.Struct:
		st := &TyDef{K: "struct", Name: rt.Name(), rt: rt}
		if depth > 0 {
			for i := 0; i < rt.NumField(); i++ {
				sf := rt.Field(i)
				st.Fields = append(st.Fields, &FieldDef{Name: sf.Name, Exported: sf.IsExported(),
					Plenc: sf.Tag.Get("plenc"), JSON: sf.Tag.Get("json"), T: FromRT(sf.Type, depth-1)})
			}
		}
		return st
	default:
		if b, ok := kindToBasic[rt.Kind()]; ok {
			under = &TyDef{K: b}
		} else {
			under = &TyDef{K: "bad", Name: rt.Kind().String()}
		}
	}
	if named {
		return &TyDef{K: "named", Name: rt.Name(), Elem: under, rt: rt}
	}
	under.rt = rt
	return under
}

// under strips `named` wrappers.
func (t *TyDef) under() *TyDef {
	for t.K == "named" {
		t = t.Elem
	}
	return t
}

func (t *TyDef) isBytes() bool {
	return t.K == "slice" && t.Elem.K == "uint8"
}
