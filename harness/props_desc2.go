package main

import (
	"fmt"
	"reflect"
	"strings"

	"github.com/philpearl/plenc/plenccodec"
)

func init() { propRunners["C14"] = runC14 }

// renderDesc: canonical rendering of a Descriptor tree:
// (d index xNAME type xTYPENAME explicit logical elements...)
func renderDesc(d *plenccodec.Descriptor) string {
	var b strings.Builder
	e := 0
	if d.ExplicitPresence {
		e = 1
	}
	fmt.Fprintf(&b, "(d %d %s %d %s %d %d", d.Index, hxs(d.Name), int(d.Type), hxs(d.TypeName), e, int(d.LogicalType))
	for i := range d.Elements {
		b.WriteByte(' ')
		b.WriteString(renderDesc(&d.Elements[i]))
	}
	b.WriteByte(')')
	return b.String()
}

func execDesc(s *Sexp) string {
	lastDescNote = ""
	c, err := parseCtx(s)
	if err != nil {
		return "bad-op " + err.Error()
	}
	return guard(func() string {
		cd, err := c.codec()
		if err != nil {
			return "builderr"
		}
		d := cd.Descriptor()
		first := renderDesc(&d)
		// the caller owns what it got: scribbling over it must not change what the codec reports next
		scribbleDesc(&d)
		d2 := cd.Descriptor()
		if second := renderDesc(&d2); second != first {
			lastDescNote = "Descriptor() changed after the caller modified an earlier result: " + second
			return "ok " + second
		}
		return "ok " + first
	})
}

var lastDescNote string

func scribbleDesc(d *plenccodec.Descriptor) {
	d.Index, d.Name, d.TypeName, d.ExplicitPresence = 4242, "scribbled", "scribbled", !d.ExplicitPresence
	for i := range d.Elements {
		scribbleDesc(&d.Elements[i])
	}
	for i, j := 0, len(d.Elements)-1; i < j; i, j = i+1, j-1 {
		d.Elements[i], d.Elements[j] = d.Elements[j], d.Elements[i]
	}
	if len(d.Elements) > 0 {
		d.Elements = d.Elements[:len(d.Elements)-1]
	}
}

// ---- expected descriptor, computed from the type definition by the harness
// (independent of plenc and of the model): the oracle of C14 ----------------------

const (
	ftInt = iota
	ftUint
	ftFloat32
	ftFloat64
	ftString
	ftSlice
	ftStruct
	ftBool
	ftTime
	ftJSONObject
	ftJSONArray
	ftFlatInt
)

type xdesc struct {
	index    int
	name     string
	typ      int
	typeName string
	explicit bool
	logical  int
	elems    []*xdesc
}

func (d *xdesc) String() string {
	e := 0
	if d.explicit {
		e = 1
	}
	s := fmt.Sprintf("(d %d %s %d %s %d %d", d.index, hxs(d.name), d.typ, hxs(d.typeName), e, d.logical)
	for _, x := range d.elems {
		s += " " + x.String()
	}
	return s + ")"
}

var ftNames = []string{"FieldTypeInt", "FieldTypeUint", "FieldTypeFloat32", "FieldTypeFloat64", "FieldTypeString",
	"FieldTypeSlice", "FieldTypeStruct", "FieldTypeBool", "FieldTypeTime"}

func ftName(t int) string {
	if t < len(ftNames) {
		return ftNames[t]
	}
	return fmt.Sprintf("FieldType(%d)", t) // the generated stringer predates the last three constants
}

func expectedDesc(t *TyDef, opt string) *xdesc {
	switch t.K {
	case "named":
		if t.Elem.K == "time" {
			return &xdesc{typ: ftStruct, typeName: t.Name}
		}
		if t.Elem.isBytes() {
			// a defined byte-slice type is a packed slice of uint8, not BytesCodec
			return &xdesc{typ: ftSlice, elems: []*xdesc{{typ: ftUint}}}
		}
		return expectedDesc(t.Elem, opt)
	case "ext":
		d := expectedDesc(extPayload[t.Name], "")
		if t.Name == "null.Time" {
			d = &xdesc{typ: ftTime, logical: 1}
		}
		d.explicit = true
		return d
	case "bool":
		return &xdesc{typ: ftBool}
	case "int", "int8", "int16", "int32", "int64":
		if opt == "flat" {
			return &xdesc{typ: ftFlatInt}
		}
		return &xdesc{typ: ftInt}
	case "uint", "uint8", "uint16", "uint32", "uint64":
		return &xdesc{typ: ftUint}
	case "f32":
		return &xdesc{typ: ftFloat32}
	case "f64":
		return &xdesc{typ: ftFloat64}
	case "str":
		return &xdesc{typ: ftString}
	case "time":
		return &xdesc{typ: ftTime, logical: 1}
	case "ptr":
		d := expectedDesc(t.Elem, opt)
		d.explicit = true
		return d
	case "slice":
		if t.isBytes() && opt == "" {
			return &xdesc{typ: ftString}
		}
		return &xdesc{typ: ftSlice, elems: []*xdesc{expectedDesc(t.Elem, "")}}
	case "map":
		k := expectedDesc(t.Key, "")
		v := expectedDesc(t.Elem, "")
		k.index, k.name = 1, "key"
		v.index, v.name = 2, "value"
		kn, vn := k.typeName, v.typeName
		if kn == "" {
			kn = ftName(k.typ)
		}
		if vn == "" {
			vn = ftName(v.typ)
		}
		return &xdesc{typ: ftSlice, logical: 4, elems: []*xdesc{{typ: ftStruct, logical: 5,
			typeName: "map_" + kn + "_" + vn, elems: []*xdesc{k, v}}}}
	case "struct":
		d := &xdesc{typ: ftStruct, typeName: t.Name}
		for _, f := range t.Fields {
			if !fieldEncoded(f) {
				continue
			}
			idx, fopt := splitTag(f.Plenc)
			if fopt == "intern" {
				fopt = ""
			}
			e := expectedDesc(f.T, fopt)
			e.index = idx
			e.name = f.Name
			if jn := strings.SplitN(f.JSON, ",", 2)[0]; jn != "" {
				e.name = jn
			}
			d.elems = append(d.elems, e)
		}
		return d
	}
	return &xdesc{typ: -1}
}

func oracleDesc(op *Sexp, res string) []string {
	if !strings.HasPrefix(res, "ok ") {
		return nil
	}
	c, err := parseCtx(op)
	if err != nil {
		return nil
	}
	want := "ok " + expectedDesc(c.td, c.tag).String()
	if res != want {
		return []string{fmt.Sprintf("descriptor does not mirror the type definition: got %s want %s", res, want)}
	}
	return nil
}

func runC14(r *Runner, g *Gen, tier string) string {
	n := scale(tier, 4000, 500000)
	for i := 0; i < n; i++ {
		cfg := g.pickCfg()
		withNull := g.r.P(30)
		var t *TyDef
		if withNull {
			t = g.presenceStruct(2)
			cfg = "(cfg " + cfg + " null)"
		} else {
			t = g.structType(3)
			if g.r.P(10) {
				t = named(g.r.Pick("Inner", "Outer", "Inner2", "Emb")) // static, non-recursive named structs
				if g.r.P(30) {
					// instantiated generic types: Page[int] and Page[…Inner2] are different types with different names
					t = FromRT(g.r.PickRT(reflect.TypeOf(Page[int]{}), reflect.TypeOf(Page[Inner2]{}), reflect.TypeOf(Pair[string, Page[int]]{})), 6)
				}
			}
		}
		r.Do(codecOp("desc", cfg, t, ""), t.K == "struct", "desc")
	}
	// concurrent callers get what a lone caller gets
	for k := 0; k < 3; k++ {
		r.Do(L(A("descconc"), A(fmt.Sprint(scale(tier, 4000, 60000)))), true, "descconc")
	}
	return "generated struct definitions (json tags, all tag options, skipped and unexported fields, nested structs, pointers, all slice shapes, maps, null types, named types) under all option combinations; op = Codec.Descriptor() rendered canonically (index, name, type, type name, explicit presence, logical type, elements); compared with the model's descriptor and with an independent reflection-free computation from the type definition in the harness"
}
