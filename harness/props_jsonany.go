package main

import (
	"bytes"
	"encoding/json"
	"fmt"
	"math"
	"reflect"
	"sort"
	"strconv"
	"strings"
	"unicode/utf8"

	"github.com/philpearl/plenc"
	"github.com/philpearl/plenc/plenccodec"
)

func init() { propRunners["C16"] = runC16 }

// JSON-model values: null (s xHEX) (i N) (f BITS) (b 0|1) (n xTOK) (a V…) (an) (o (xKEY V)…) (on)

func parseJ(s *Sexp) (interface{}, error) {
	if !s.IsL {
		if s.Atom == "null" {
			return nil, nil
		}
		return nil, fmt.Errorf("bad json value %s", s.Atom)
	}
	switch s.head() {
	case "s":
		b, err := unhx(s.List[1].Atom)
		return string(b), err
	case "i":
		v, err := strconv.ParseInt(s.List[1].Atom, 10, 64)
		return int(v), err
	case "f":
		v, err := strconv.ParseUint(s.List[1].Atom, 10, 64)
		return math.Float64frombits(v), err
	case "b":
		return s.List[1].Atom == "1", nil
	case "n":
		b, err := unhx(s.List[1].Atom)
		return json.Number(b), err
	case "an":
		return []interface{}(nil), nil
	case "a":
		out := []interface{}{}
		for _, x := range s.List[1:] {
			v, err := parseJ(x)
			if err != nil {
				return nil, err
			}
			out = append(out, v)
		}
		return out, nil
	case "on":
		return map[string]interface{}(nil), nil
	case "o":
		out := map[string]interface{}{}
		for _, x := range s.List[1:] {
			k, err := unhx(x.List[0].Atom)
			if err != nil {
				return nil, err
			}
			v, err := parseJ(x.List[1])
			if err != nil {
				return nil, err
			}
			out[string(k)] = v
		}
		return out, nil
	}
	return nil, fmt.Errorf("bad json value head %s", s.head())
}

func showJ(v interface{}) string {
	switch v := v.(type) {
	case nil:
		return "null"
	case string:
		return "(s " + hxs(v) + ")"
	case int:
		return fmt.Sprintf("(i %d)", v)
	case float64:
		return fmt.Sprintf("(f %d)", math.Float64bits(v))
	case bool:
		if v {
			return "(b 1)"
		}
		return "(b 0)"
	case json.Number:
		return "(n " + hxs(string(v)) + ")"
	case []interface{}:
		if v == nil {
			return "(an)"
		}
		s := "(a"
		for _, x := range v {
			s += " " + showJ(x)
		}
		return s + ")"
	case map[string]interface{}:
		if v == nil {
			return "(on)"
		}
		keys := make([]string, 0, len(v))
		for k := range v {
			keys = append(keys, k)
		}
		sort.Strings(keys)
		s := "(o"
		for _, k := range keys {
			s += " (" + hxs(k) + " " + showJ(v[k]) + ")"
		}
		return s + ")"
	}
	return fmt.Sprintf("(?%T)", v)
}

var jsonInst *plenc.Plenc

func jsonInstance() *plenc.Plenc {
	if jsonInst == nil {
		p := &plenc.Plenc{}
		p.RegisterDefaultCodecs()
		p.RegisterCodec(reflect.TypeOf(map[string]interface{}(nil)), plenccodec.JSONMapCodec{})
		p.RegisterCodec(reflect.TypeOf([]interface{}(nil)), plenccodec.JSONArrayCodec{})
		jsonInst = p
	}
	return jsonInst
}

type jHolder struct {
	A int                    `plenc:"1"`
	M map[string]interface{} `plenc:"2"`
	L []interface{}          `plenc:"3"`
	Z string                 `plenc:"4"`
}

type jHolderOld struct {
	A int    `plenc:"1"`
	Z string `plenc:"4"`
}

// execJRT: (jrt position V [V2])
//
//	top   : V is an object or array: Marshal at top level, Unmarshal into a fresh variable
//	field : struct{A; M = V (object) ; L = V2 (array); Z}: round trip
//	skip  : the same struct decoded into one without M and L: A and Z must survive
//	desc  : descriptor walk of the top-level encoding rendered as JSON (hex)
func execJRT(s *Sexp) string {
	pos := s.List[1].Atom
	v, err := parseJ(s.List[2])
	if err != nil {
		return "bad-op " + err.Error()
	}
	p := jsonInstance()
	return guard(func() string {
		switch pos {
		case "enc":
			var data []byte
			var err error
			switch tv := v.(type) {
			case map[string]interface{}:
				data, err = p.Marshal(nil, &tv)
			case []interface{}:
				data, err = p.Marshal(nil, &tv)
			default:
				return "bad-op"
			}
			if err != nil {
				return "err"
			}
			// the same bytes into destinations that must grow while the value is written: empty non-nil,
			// tiny, half the size, behind a prefix
			data = append([]byte(nil), data...)
			for _, dst := range [][]byte{{}, make([]byte, 0, 16), make([]byte, 0, len(data)/2+1), append(make([]byte, 0, 3), 0x7e, 0x7e)} {
				pre := len(dst)
				var d2 []byte
				switch tv := v.(type) {
				case map[string]interface{}:
					if jHasMultiKeyMaps(tv) {
						continue
					}
					d2, err = p.Marshal(dst, &tv)
				case []interface{}:
					if jHasMultiKeyMaps(tv) {
						continue
					}
					d2, err = p.Marshal(dst, &tv)
				}
				if err != nil || !bytes.Equal(d2[pre:], data) {
					return "buffer-differs " + hx(data) + " " + hx(d2)
				}
			}
			return "ok " + hx(data)
		case "top", "desc":
			data, err := unhx(s.List[3].Atom)
			if err != nil {
				return "bad-op"
			}
			switch tv := v.(type) {
			case map[string]interface{}:
				if pos == "desc" {
					c, _ := p.CodecForType(reflect.TypeOf(tv))
					return descBoth(c, data)
				}
				var back map[string]interface{}
				if err := p.Unmarshal(data, &back); err != nil {
					return "err"
				}
				return "ok " + showJ(back)
			case []interface{}:
				if pos == "desc" {
					c, _ := p.CodecForType(reflect.TypeOf(tv))
					return descBoth(c, data)
				}
				var back []interface{}
				if err := p.Unmarshal(data, &back); err != nil {
					return "err"
				}
				return "ok " + showJ(back)
			}
			return "bad-op top-level must be object or array"
		case "merge":
			// (jrt merge V PRIOR xDATA): decode into a target that already holds PRIOR
			prior, err := parseJ(s.List[3])
			if err != nil {
				return "bad-op"
			}
			data, err := unhx(s.List[4].Atom)
			if err != nil {
				return "bad-op"
			}
			switch v.(type) {
			case map[string]interface{}:
				back, ok := prior.(map[string]interface{})
				if !ok {
					return "bad-op"
				}
				if err := p.Unmarshal(data, &back); err != nil {
					return "err"
				}
				return "ok " + showJ(back)
			case []interface{}:
				back, ok := prior.([]interface{})
				if !ok {
					return "bad-op"
				}
				if len(back) > 0 {
					// spare capacity behind the target, holding stale values
					grown := make([]interface{}, len(back), 2*len(back)+2)
					copy(grown, back)
					for i := len(back); i < cap(grown); i++ {
						grown[:cap(grown)][i] = "stale"
					}
					back = grown
				}
				if err := p.Unmarshal(data, &back); err != nil {
					return "err"
				}
				return "ok " + showJ(back)
			}
			return "bad-op"
		case "field", "skip":
			v2, err := parseJ(s.List[3])
			if err != nil {
				return "bad-op"
			}
			h := jHolder{A: -7, Z: "z"}
			h.M, _ = v.(map[string]interface{})
			h.L, _ = v2.([]interface{})
			data, err := p.Marshal(nil, &h)
			if err != nil {
				return "err"
			}
			if pos == "skip" {
				var o jHolderOld
				if err := p.Unmarshal(data, &o); err != nil {
					return "err"
				}
				return fmt.Sprintf("ok %d %s", o.A, hxs(o.Z))
			}
			var back jHolder
			if err := p.Unmarshal(data, &back); err != nil {
				return "err"
			}
			return fmt.Sprintf("ok %d %s %s %s", back.A, showJ(back.M), showJ(back.L), hxs(back.Z))
		}
		return "bad-op"
	})
}

var lastJRTDescJSON []byte

// descBoth walks the data with the codec's descriptor twice: recording the calls
// (the comparable output) and rendering JSON (kept for the oracle).
func descBoth(c plenccodec.Codec, data []byte) string {
	d := c.Descriptor()
	var out plenccodec.JSONOutput
	if err := d.Read(&out, data); err != nil {
		return "err"
	}
	lastJRTDescJSON = append([]byte(nil), out.Done()...)
	var rec recOut
	if err := d.Read(&rec, data); err != nil {
		return "err"
	}
	return "ok " + strings.Join(rec.calls, " ")
}

// ---- generator ----

func (g *Gen) jval(depth int) *Sexp {
	k := g.r.Intn(12)
	if depth <= 0 && k >= 8 {
		k = g.r.Intn(8)
	}
	switch k {
	case 0:
		return A("null")
	case 1, 2:
		return L(A("s"), A(hx(g.jsonStr())))
	case 3:
		v := g.i64()
		return L(A("i"), A(strconv.FormatInt(v, 10)))
	case 4:
		return L(A("i"), A("0"))
	case 5:
		b := f64Specials[g.r.Intn(len(f64Specials))]
		if g.r.Bool() {
			b = g.r.U64()
		}
		if b&0x7FF0000000000000 == 0x7FF0000000000000 {
			b = 0
		}
		return L(A("f"), A(strconv.FormatUint(b, 10)))
	case 6:
		return L(A("b"), A(g.r.Pick("0", "1")))
	case 7:
		return L(A("n"), A(hxs(g.r.Pick("0", "12", "-1.5e300", "123456789012345678901234567890", "0.1", "1e400", "-1e999", "-2E+308", "1e-400", "-0", "1E5", "0.000", "9007199254740993", "18446744073709551616"))))
	case 8, 9:
		return g.jarr(depth)
	}
	return g.jobj(depth)
}

func (g *Gen) jarr(depth int) *Sexp {
	if g.r.P(12) {
		return L(A("an"))
	}
	items := []*Sexp{A("a")}
	for n := g.r.Intn(4); n > 0; n-- {
		items = append(items, g.jval(depth-1))
	}
	return L(items...)
}

func (g *Gen) jobj(depth int) *Sexp {
	if g.r.P(12) {
		return L(A("on"))
	}
	items := []*Sexp{A("o")}
	seen := map[string]bool{}
	for n := g.r.Intn(4); n > 0; n-- {
		var k []byte
		if g.r.P(25) {
			k = nil
		} else {
			k = []byte(g.r.Pick("a", "b", "key", "k\"q", "é", "x y", "back\\slash", "\x01", "\a\v", "\x7f", "\x00k", "tab\there", "nl\n", "\u2028", "</k>"))
			if g.r.P(10) {
				k = g.jsonStr() // every byte class, boundary lengths
			}
		}
		if seen[string(k)] {
			continue
		}
		seen[string(k)] = true
		items = append(items, L(A(hx(k)), g.jval(depth-1)))
	}
	return L(items...)
}

func runC16(r *Runner, g *Gen, tier string) string {
	// concurrent Marshal of JSON-any values of different lengths: each result is the lone caller's
	for k := 0; k < 3; k++ {
		r.Do(L(A("jconc"), A(fmt.Sprint(scale(tier, 4000, 60000)))), true, "jconc")
	}
	n := scale(tier, 3000, 600000)
	for i := 0; i < n; i++ {
		d := 1 + g.r.Intn(5)
		switch g.r.Intn(5) {
		case 0, 1:
			v := g.jobj(d)
			if g.r.Bool() {
				v = g.jarr(d)
			}
			enc := jenc(r, v)
			if strings.HasPrefix(enc, "ok x") {
				r.Do(L(A("jrt"), A("top"), v, A(enc[3:])), true, "jrt.top")
			}
		case 2:
			if g.r.P(50) {
				// into a populated target
				v, prior := g.jobj(d), g.jobj(d)
				if g.r.Bool() {
					v, prior = g.jarr(d), g.jarr(d)
				}
				enc := jenc(r, v)
				if strings.HasPrefix(enc, "ok x") {
					r.Do(L(A("jrt"), A("merge"), v, prior, A(enc[3:])), true, "jrt.merge")
				}
				break
			}
			r.Do(L(A("jrt"), A("field"), g.jobj(d), g.jarr(d)), true, "jrt.field")
		case 3:
			r.Do(L(A("jrt"), A("skip"), g.jobj(d), g.jarr(d)), true, "jrt.skip")
		case 4:
			v := g.jobj(d)
			if g.r.Bool() {
				v = g.jarr(d)
			}
			enc := jenc(r, v)
			if strings.HasPrefix(enc, "ok x") {
				r.Do(L(A("jrt"), A("desc"), v, A(enc[3:])), true, "jrt.desc")
			}
		}
	}
	// trees nested 30-70 deep, rendered through the codec's Descriptor
	for _, depth := range []int{30, 31, 32, 33, 34, 40, 70} {
		for shape := 0; shape < 2; shape++ {
			v := L(A("s"), A(hx([]byte("deep"))))
			for d := 0; d < depth; d++ {
				if shape == 0 || d%2 == 0 {
					v = L(A("a"), v)
				} else {
					v = L(A("o"), L(A(hx([]byte("k"))), v))
				}
			}
			if v.head() != "a" {
				v = L(A("a"), v)
			}
			enc := jenc(r, v)
			if strings.HasPrefix(enc, "ok x") {
				r.Do(L(A("jrt"), A("top"), v, A(enc[3:])), true, "jrt.deep")
				r.Do(L(A("jrt"), A("desc"), v, A(enc[3:])), true, "jrt.deep-desc")
			}
		}
	}
	// depth far beyond what generated trees reach (the encoding is built by hand: Marshal is quadratic in depth)
	for _, d := range []int{1, 2, 7, 64, 65, 1000, 20000, 100000} {
		r.Do(L(A("jdeep"), A(strconv.Itoa(d))), true, "jdeep")
	}
	return "JSON-model trees over nil, bool, int (boundaries, zero), float64, string (all byte classes, empty), json.Number, []any and map[string]any with empty keys, empty and nil containers at every position, depth<=5, plus one-element arrays nested 1 to 100000 deep (decode only, outside the model); positions: top level, struct field beside other fields, unknown field skipped by an older struct, descriptor walk rendered as JSON; compared with the model; oracle: equality up to nil/empty containers, A and Z fields intact when skipping, descriptor JSON parses to the value"
}

// ---- oracle ----

func jnormEq(a, b interface{}) bool {
	switch av := a.(type) {
	case []interface{}:
		bv, ok := b.([]interface{})
		if !ok || len(av) != len(bv) {
			return false
		}
		for i := range av {
			if !jnormEq(av[i], bv[i]) {
				return false
			}
		}
		return true
	case map[string]interface{}:
		bv, ok := b.(map[string]interface{})
		if !ok || len(av) != len(bv) {
			return false
		}
		for k, x := range av {
			y, ok := bv[k]
			if !ok || !jnormEq(x, y) {
				return false
			}
		}
		return true
	case float64:
		bv, ok := b.(float64)
		return ok && math.Float64bits(av) == math.Float64bits(bv)
	}
	return reflect.DeepEqual(a, b)
}

func parseShownJ(s string) (interface{}, error) {
	sx, err := parseSexp(s)
	if err != nil {
		return nil, err
	}
	return parseJ(sx)
}

func oracleJRT(op *Sexp, res string) []string {
	pos := op.List[1].Atom
	if !strings.HasPrefix(res, "ok ") {
		return []string{"JSON-any " + pos + " failed: " + res}
	}
	v, err := parseJ(op.List[2])
	if err != nil {
		return nil
	}
	f := strings.Fields(res)
	switch pos {
	case "top":
		back, err := parseShownJ(strings.Join(f[1:], " "))
		if err != nil {
			return []string{"unparsable result"}
		}
		if !jnormEq(v, back) {
			return []string{"JSON-any value does not round-trip at top level: got " + strings.Join(f[1:], " ")}
		}
	case "merge":
		back, err := parseShownJ(strings.Join(f[1:], " "))
		prior, err2 := parseJ(op.List[3])
		if err != nil || err2 != nil {
			return []string{"unparsable result"}
		}
		switch tv := v.(type) {
		case []interface{}:
			// an array holds exactly the encoded elements, whatever the target held before (an array that
			// encodes to nothing leaves the target alone)
			want := interface{}(tv)
			if len(tv) == 0 {
				want = prior
			}
			if !jnormEq(want, back) {
				return []string{"JSON array decoded into a populated target: got " + strings.Join(f[1:], " ")}
			}
		case map[string]interface{}:
			// an object is merged by key
			want := map[string]interface{}{}
			if pm, ok := prior.(map[string]interface{}); ok {
				for k, x := range pm {
					want[k] = x
				}
			}
			for k, x := range tv {
				want[k] = x
			}
			if !jnormEq(want, back) {
				return []string{"JSON object decoded into a populated target: got " + strings.Join(f[1:], " ")}
			}
		}
	case "skip":
		if f[1] != "-7" || f[2] != hxs("z") {
			return []string{"fields around a skipped JSON-any field were disturbed: " + res}
		}
	case "field":
		if f[1] != "-7" || f[len(f)-1] != hxs("z") {
			return []string{"fields around a JSON-any field were disturbed: " + res}
		}
	case "desc":
		out := lastJRTDescJSON
		if !json.Valid(out) {
			return []string{fmt.Sprintf("descriptor rendering of JSON-any value is not valid JSON: %q", out)}
		}
		if !jsonUTF8OK(v) {
			return nil
		}
		var got interface{}
		d := json.NewDecoder(bytes.NewReader(out))
		d.UseNumber()
		if err := d.Decode(&got); err != nil {
			return []string{"decode: " + err.Error()}
		}
		a, _ := json.Marshal(canonJ(got))
		b, _ := json.Marshal(canonJ(jToJSONModel(v)))
		if !bytes.Equal(a, b) {
			return []string{fmt.Sprintf("descriptor rendering differs from the value: got %s want %s", a, b)}
		}
	}
	return nil
}

func jsonUTF8OK(v interface{}) bool {
	switch v := v.(type) {
	case string:
		return utf8.ValidString(v)
	case []interface{}:
		for _, x := range v {
			if !jsonUTF8OK(x) {
				return false
			}
		}
	case map[string]interface{}:
		for k, x := range v {
			if !utf8.ValidString(k) || !jsonUTF8OK(x) {
				return false
			}
		}
	}
	return true
}

// jToJSONModel: ints/floats as json.Number, nil containers as empty
func jToJSONModel(v interface{}) interface{} {
	switch v := v.(type) {
	case int:
		return json.Number(strconv.Itoa(v))
	case float64:
		return json.Number(strconv.FormatFloat(v, 'g', -1, 64))
	case []interface{}:
		out := []interface{}{}
		for _, x := range v {
			out = append(out, jToJSONModel(x))
		}
		return out
	case map[string]interface{}:
		out := map[string]interface{}{}
		for k, x := range v {
			out[k] = jToJSONModel(x)
		}
		return out
	}
	return v
}

// jHasMultiKeyMaps: some object in the value has two or more keys (its encoding is not unique)
func jHasMultiKeyMaps(v interface{}) bool {
	switch tv := v.(type) {
	case map[string]interface{}:
		if len(tv) > 1 {
			return true
		}
		for _, x := range tv {
			if jHasMultiKeyMaps(x) {
				return true
			}
		}
	case []interface{}:
		for _, x := range tv {
			if jHasMultiKeyMaps(x) {
				return true
			}
		}
	}
	return false
}

// jenc: Marshal of a JSON-any value (used to build later ops); a marshal that differs between
// destinations is reported here, since the op itself is not part of the recorded stream.
func jenc(r *Runner, v *Sexp) string {
	op := L(A("jrt"), A("enc"), v)
	res := execOp(op)
	if strings.HasPrefix(res, "buffer-differs") || res == "panic" {
		r.Oracle(op, "Marshal of a JSON-any value into an empty / small / prefixed destination differs from Marshal(nil, v): "+clip(res, 300))
	}
	return res
}
