package main

import (
	"fmt"
	"reflect"
	"sort"
	"strconv"
	"strings"
	"sync/atomic"
	"time"
)

// Val mirrors the model's `Val` (lean/Plenc/Codec.lean). Struct values list the
// encoded fields only (see fieldEncoded).
type Val struct {
	K    string // b i u f32 f64 s y T p l r mn m
	B    bool
	I    int64
	U    uint64
	Data []byte
	Sec  int64
	Nsec int64
	P    *Val      // p: nil = nil pointer
	L    []*Val    // l, r
	M    [][2]*Val // m
}

func (v *Val) String() string {
	var b strings.Builder
	v.write(&b)
	return b.String()
}

func (v *Val) write(b *strings.Builder) {
	switch v.K {
	case "b":
		if v.B {
			b.WriteString("(b 1)")
		} else {
			b.WriteString("(b 0)")
		}
	case "i":
		fmt.Fprintf(b, "(i %d)", v.I)
	case "u":
		fmt.Fprintf(b, "(u %d)", v.U)
	case "f32":
		fmt.Fprintf(b, "(f32 %d)", v.U)
	case "f64":
		fmt.Fprintf(b, "(f64 %d)", v.U)
	case "s":
		fmt.Fprintf(b, "(s %s)", hx(v.Data))
	case "y":
		fmt.Fprintf(b, "(y %s)", hx(v.Data))
	case "T":
		fmt.Fprintf(b, "(T %d %d)", v.Sec, v.Nsec)
	case "p":
		if v.P == nil {
			b.WriteString("(p)")
		} else {
			b.WriteString("(p ")
			v.P.write(b)
			b.WriteString(")")
		}
	case "l", "r":
		b.WriteString("(" + v.K)
		for _, x := range v.L {
			b.WriteByte(' ')
			x.write(b)
		}
		b.WriteByte(')')
	case "mn":
		b.WriteString("(mn)")
	case "m":
		// canonical: entries sorted by their rendering
		strs := make([]string, len(v.M))
		for i, e := range v.M {
			strs[i] = "(" + e[0].String() + " " + e[1].String() + ")"
		}
		sort.Strings(strs)
		b.WriteString("(m")
		for _, s := range strs {
			b.WriteByte(' ')
			b.WriteString(s)
		}
		b.WriteByte(')')
	default:
		b.WriteString("(?" + v.K + ")")
	}
}

// OrderedString renders map entries in the order given (not sorted): used where
// the op must fix an iteration order for the model.
func (v *Val) Sexp() *Sexp { s, _ := parseSexp(v.String()); return s }

func parseVal(s *Sexp) (*Val, error) {
	if !s.IsL || len(s.List) == 0 {
		return nil, fmt.Errorf("bad value %s", s)
	}
	h := s.head()
	arg := func(i int) string {
		if i < len(s.List) && !s.List[i].IsL {
			return s.List[i].Atom
		}
		return ""
	}
	switch h {
	case "b":
		return &Val{K: "b", B: arg(1) == "1"}, nil
	case "i":
		i, err := strconv.ParseInt(arg(1), 10, 64)
		return &Val{K: "i", I: i}, err
	case "u", "f32", "f64":
		u, err := strconv.ParseUint(arg(1), 10, 64)
		return &Val{K: h, U: u}, err
	case "s", "y":
		d, err := unhx(arg(1))
		return &Val{K: h, Data: d}, err
	case "T":
		sec, e1 := strconv.ParseInt(arg(1), 10, 64)
		ns, e2 := strconv.ParseInt(arg(2), 10, 64)
		if e1 != nil {
			return nil, e1
		}
		return &Val{K: "T", Sec: sec, Nsec: ns}, e2
	case "p":
		if len(s.List) == 1 {
			return &Val{K: "p"}, nil
		}
		p, err := parseVal(s.List[1])
		return &Val{K: "p", P: p}, err
	case "l", "r":
		v := &Val{K: h}
		for _, x := range s.List[1:] {
			e, err := parseVal(x)
			if err != nil {
				return nil, err
			}
			v.L = append(v.L, e)
		}
		return v, nil
	case "mn":
		return &Val{K: "mn"}, nil
	case "m":
		v := &Val{K: "m"}
		for _, x := range s.List[1:] {
			if !x.IsL || len(x.List) != 2 {
				return nil, fmt.Errorf("bad map entry")
			}
			k, err := parseVal(x.List[0])
			if err != nil {
				return nil, err
			}
			e, err := parseVal(x.List[1])
			if err != nil {
				return nil, err
			}
			v.M = append(v.M, [2]*Val{k, e})
		}
		return v, nil
	}
	return nil, fmt.Errorf("bad value head %q", h)
}

// ToReflect stores v into rv (settable, of the Go type of t).
// staleCapacity: slices are built with spare capacity that holds stale (non-zero)
// elements, as a re-used `s = s[:n]` target has.
var staleCapacity bool

// zeroTimeSeq rotates the location given to zero times
var zeroTimeSeq int64

func (v *Val) ToReflect(rv reflect.Value, t *TyDef) (err error) {
	defer func() {
		if r := recover(); r != nil {
			err = fmt.Errorf("ToReflect %s into %s: %v", v.K, rv.Type(), r)
		}
	}()
	switch t.K {
	case "named":
		if t.Elem.K == "time" {
			return nil // defined type over time.Time: no encoded fields
		}
		return v.ToReflect(rv, t.Elem)
	case "time":
		tm := time.Unix(v.Sec, v.Nsec).UTC()
		// the same instant in other locations (the encoding is of the instant, not of the wall clock)
		sel := (v.Sec ^ v.Nsec) & 3
		if tm.IsZero() {
			// the zero instant too (IsZero looks at the instant, not at the location)
			sel = atomic.AddInt64(&zeroTimeSeq, 1) % 3
		}
		switch sel {
		case 1:
			tm = tm.In(time.FixedZone("east", int((v.Sec&15)-3)*3600+1800))
		case 2:
			tm = tm.In(time.FixedZone("west", -int(v.Nsec&7)*3600))
		}
		rv.Set(reflect.ValueOf(tm))
		return nil
	case "ext":
		// null.X{payload, Valid}: field 0 is the embedded sql.NullX whose field 0 is the payload
		rv.Set(reflect.Zero(rv.Type()))
		if v.P == nil {
			return nil
		}
		inner := rv.Field(0)
		inner.Field(1).SetBool(true)
		return v.P.ToReflect(inner.Field(0), extPayload[t.Name])
	case "ptr":
		if v.P == nil {
			rv.Set(reflect.Zero(rv.Type()))
			return nil
		}
		n := reflect.New(rv.Type().Elem())
		if err := v.P.ToReflect(n.Elem(), t.Elem); err != nil {
			return err
		}
		rv.Set(n)
		return nil
	case "slice":
		if v.K == "y" {
			rv.SetBytes(append([]byte(nil), v.Data...))
			if len(v.Data) == 0 {
				rv.Set(reflect.Zero(rv.Type()))
			}
			return nil
		}
		if len(v.L) == 0 {
			rv.Set(reflect.Zero(rv.Type()))
			return nil
		}
		n := len(v.L)
		total := n
		if staleCapacity {
			total = 2*n + 1 // spare capacity behind the length, holding stale copies of the elements
		}
		s := reflect.MakeSlice(rv.Type(), total, total)
		for i := 0; i < total; i++ {
			if err := v.L[i%n].ToReflect(s.Index(i), t.Elem); err != nil {
				return err
			}
		}
		rv.Set(s.Slice(0, n))
		return nil
	case "map":
		if v.K == "mn" {
			rv.Set(reflect.Zero(rv.Type()))
			return nil
		}
		m := reflect.MakeMap(rv.Type())
		for _, e := range v.M {
			k := reflect.New(rv.Type().Key()).Elem()
			if err := e[0].ToReflect(k, t.Key); err != nil {
				return err
			}
			x := reflect.New(rv.Type().Elem()).Elem()
			if err := e[1].ToReflect(x, t.Elem); err != nil {
				return err
			}
			m.SetMapIndex(k, x)
		}
		rv.Set(m)
		return nil
	case "struct":
		j := 0
		for i, f := range t.Fields {
			if !fieldEncoded(f) {
				continue
			}
			if j >= len(v.L) {
				return fmt.Errorf("struct value too short")
			}
			fv := rv.Field(i)
			if !fv.CanSet() {
				return fmt.Errorf("field %s not settable", f.Name)
			}
			if err := v.L[j].ToReflect(fv, f.T); err != nil {
				return err
			}
			j++
		}
		return nil
	case "bool":
		rv.SetBool(v.B)
	case "int", "int8", "int16", "int32", "int64":
		rv.SetInt(v.I)
	case "uint", "uint8", "uint16", "uint32", "uint64":
		rv.SetUint(v.U)
	case "f32":
		// store the bits directly: conversions through float64 may quieten NaN payloads
		*(*uint32)(rv.Addr().UnsafePointer()) = uint32(v.U)
	case "f64":
		*(*uint64)(rv.Addr().UnsafePointer()) = v.U
	case "str":
		rv.SetString(string(v.Data))
	default:
		return fmt.Errorf("ToReflect: kind %s", t.K)
	}
	return nil
}

func addressable(rv reflect.Value) reflect.Value {
	if rv.CanAddr() {
		return rv
	}
	n := reflect.New(rv.Type()).Elem()
	n.Set(rv)
	return n
}

// FromReflect renders a Go value canonically.
func FromReflect(rv reflect.Value, t *TyDef) *Val {
	switch t.K {
	case "named":
		if t.Elem.K == "time" {
			return &Val{K: "r"}
		}
		return FromReflect(rv, t.Elem)
	case "time":
		tm := rv.Interface().(time.Time)
		return &Val{K: "T", Sec: tm.Unix(), Nsec: int64(tm.Nanosecond())}
	case "ext":
		inner := rv.Field(0)
		if !inner.Field(1).Bool() {
			return &Val{K: "p"}
		}
		return &Val{K: "p", P: FromReflect(inner.Field(0), extPayload[t.Name])}
	case "ptr":
		if rv.IsNil() {
			return &Val{K: "p"}
		}
		return &Val{K: "p", P: FromReflect(rv.Elem(), t.Elem)}
	case "slice":
		if t.isBytes() {
			return &Val{K: "y", Data: append([]byte(nil), rv.Bytes()...)}
		}
		out := &Val{K: "l"}
		for i := 0; i < rv.Len(); i++ {
			out.L = append(out.L, FromReflect(rv.Index(i), t.Elem))
		}
		return out
	case "map":
		if rv.IsNil() {
			return &Val{K: "mn"}
		}
		out := &Val{K: "m"}
		it := rv.MapRange()
		for it.Next() {
			out.M = append(out.M, [2]*Val{FromReflect(it.Key(), t.Key), FromReflect(it.Value(), t.Elem)})
		}
		return out
	case "struct":
		out := &Val{K: "r"}
		for i, f := range t.Fields {
			if !fieldEncoded(f) {
				continue
			}
			out.L = append(out.L, FromReflect(rv.Field(i), f.T))
		}
		return out
	case "bool":
		return &Val{K: "b", B: rv.Bool()}
	case "int", "int8", "int16", "int32", "int64":
		return &Val{K: "i", I: rv.Int()}
	case "uint", "uint8", "uint16", "uint32", "uint64":
		return &Val{K: "u", U: rv.Uint()}
	case "f32":
		a := addressable(rv)
		return &Val{K: "f32", U: uint64(*(*uint32)(a.Addr().UnsafePointer()))}
	case "f64":
		a := addressable(rv)
		return &Val{K: "f64", U: *(*uint64)(a.Addr().UnsafePointer())}
	case "str":
		return &Val{K: "s", Data: []byte(rv.String())}
	}
	return &Val{K: "?" + t.K}
}
