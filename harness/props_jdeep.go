package main

import (
	"fmt"
	"strconv"

	"github.com/philpearl/plenc"
	"github.com/philpearl/plenc/plenccore"
)

// (jdeep N): the encoding of N nested one-element arrays [[[...[nil]...]]] is
// built inside-out by hand (Marshal itself is quadratic in the depth), checked
// against Marshal for small N, and decoded into a []any. Result: "ok <depth
// recovered>" or err/panic; unbounded recursion shows as a fatal stack overflow
// of the harness process (finding F12). Outside the Lean model ("unsupported").
func deepArrayBytes(n int) []byte {
	typeTag := plenccore.AppendTag(nil, plenccore.WTVarInt, 2)
	valTag := plenccore.AppendTag(nil, plenccore.WTSlice, 3)
	// innermost: [nil] = count 1, item length, item = (type tag, jsonTypeNil)
	item := append(append([]byte(nil), typeTag...), 0)
	// built back to front in one buffer to stay linear
	buf := make([]byte, 0, 16*n+16)
	rev := func(b []byte) {
		for i := len(b) - 1; i >= 0; i-- {
			buf = append(buf, b[i])
		}
	}
	rev(item)
	size := len(item) // size of the current item
	for level := 0; level < n; level++ {
		// array = count(1) ++ varint(size) ++ item ; next item = typeTag ++ 5 ++ valTag ++ array
		l := plenccore.AppendVarUint(nil, uint64(size))
		rev(l)
		buf = append(buf, 1)
		size += len(l) + 1
		if level == n-1 {
			break
		}
		rev(valTag)
		buf = append(buf, 5)
		rev(typeTag)
		size += len(valTag) + 1 + len(typeTag)
	}
	for i, j := 0, len(buf)-1; i < j; i, j = i+1, j-1 {
		buf[i], buf[j] = buf[j], buf[i]
	}
	return buf
}

func nestedArray(n int) []interface{} {
	v := []interface{}{nil}
	for i := 1; i < n; i++ {
		v = []interface{}{v}
	}
	return v
}

func execJDeep(s *Sexp) string {
	if len(s.List) != 2 {
		return "bad-op"
	}
	n, err := strconv.Atoi(s.List[1].Atom)
	if err != nil || n < 1 {
		return "bad-op"
	}
	p := jsonInstance()
	return guard(func() string {
		data := deepArrayBytes(n)
		if n <= 64 {
			want, err := p.Marshal(nil, nestedArray(n))
			if err != nil || hx(want) != hx(data) {
				return fmt.Sprintf("bad-op hand-built encoding differs from Marshal at depth %d: %s vs %s", n, hx(data), hx(want))
			}
		}
		var out []interface{}
		if err := p.Unmarshal(data, &out); err != nil {
			return "err"
		}
		depth := 0
		for cur := interface{}(out); ; {
			a, ok := cur.([]interface{})
			if !ok || len(a) != 1 {
				break
			}
			depth++
			cur = a[0]
		}
		return "ok " + strconv.Itoa(depth)
	})
}

func oracleJDeep(op *Sexp, res string) []string {
	if len(op.List) == 2 && res != "ok "+op.List[1].Atom {
		return []string{fmt.Sprintf("%s nested arrays decoded to %q", op.List[1].Atom, res)}
	}
	return nil
}

// (tdeep N): the typed decoder on a recursive struct (Rec, through its Next pointer) nested N
// deep: one stack frame per level, with no limit (finding F20). Oracle only.
func execTDeep(s *Sexp) string {
	if len(s.List) != 2 {
		return "bad-op"
	}
	n, err := strconv.Atoi(s.List[1].Atom)
	if err != nil || n < 1 {
		return "bad-op"
	}
	return guard(func() string {
		// innermost Rec{V: 1} = 08 02; each level around it: tag(2, WTLength) ++ varint(len) ++ inner
		buf := make([]byte, 0, 8*n+16)
		rev := func(b []byte) {
			for i := len(b) - 1; i >= 0; i-- {
				buf = append(buf, b[i])
			}
		}
		rev([]byte{0x08, 0x02})
		size := 2
		for level := 0; level < n; level++ {
			l := plenccore.AppendVarUint(nil, uint64(size))
			rev(l)
			buf = append(buf, 0x12)
			size += len(l) + 1
		}
		for i, j := 0, len(buf)-1; i < j; i, j = i+1, j-1 {
			buf[i], buf[j] = buf[j], buf[i]
		}
		p := &plenc.Plenc{}
		p.RegisterDefaultCodecs()
		var out Rec
		if err := p.Unmarshal(buf, &out); err != nil {
			return "err"
		}
		depth := 0
		for cur := &out; cur.Next != nil; cur = cur.Next {
			depth++
		}
		return "ok " + strconv.Itoa(depth)
	})
}
