package main

import (
	"fmt"
	"strings"
)

func init() {
	propRunners["C03"] = runC03
	propRunners["C06"] = runC06
	propRunners["C10"] = runC10
	propRunners["C12"] = runC12
}

// ---- C06 -------------------------------------------------------------------------

func runC06(r *Runner, g *Gen, tier string) string {
	n := scale(tier, 3000, 450000)
	for i := 0; i < n; i++ {
		cfg := g.pickCfg()
		t := g.topType(2)
		if g.r.P(25) {
			t = g.ifaceShaped() // how the value sits in the interface word matters by value
		}
		b := 30
		var v *Val
		if g.r.P(25) {
			v = zeroVal(t) // encodes to nothing at all
		} else {
			v = g.Value(t, &b)
		}
		if multiEntryMaps(v) {
			continue
		}
		pre := g.r.Bytes(g.r.Pick3(0, 6, 40))
		capExtra := []int{0, 1, 8, 64, 4096}[g.r.Intn(5)]
		if g.r.P(40) {
			capExtra = g.r.Intn(40) // every small amount of room: the encoding runs out of it at every possible point
		}
		mode := "ptr"
		if g.r.P(45) {
			mode = "val"
		}
		op := codecOp("app", cfg, t, "", v.Sexp(), A(hx(pre)), A(fmt.Sprint(capExtra)), A(mode))
		res := r.Do(op, len(pre) > 0, "app."+mode)
		// repetition with buffer reuse: marshal again into the returned buffer's prefix
		if g.r.P(30) && strings.HasPrefix(res, "ok ") {
			r.Do(op, len(pre) > 0, "app.repeat")
		}
	}
	mutStream(r, g, scale(tier, 800, 60000))
	// widest varints and fixed-width values with every amount of spare capacity up to a little beyond the encoding
	wide := Struct(F("A", "1", B("uint64")), &FieldDef{Name: "B", Exported: true, Plenc: "2,flat", T: B("int64")}, F("C", "3", B("int64")),
		F("T", "4", &TyDef{K: "time"}), F("F", "5", B("f64")), F("S", "6", B("str")))
	for _, a := range []uint64{1 << 63, ^uint64(0), 1<<56 - 1, 1 << 56, 127, 128} {
		v := &Val{K: "r", L: []*Val{{K: "u", U: a}, {K: "i", I: -1}, {K: "i", I: -1 << 63}, {K: "T", Sec: 1700000000, Nsec: 999999999},
			{K: "f64", U: 0x4009_21fb_5444_2d18}, {K: "s", Data: []byte("hello")}}}
		for capExtra := 0; capExtra <= 64; capExtra++ {
			r.Do(codecOp("app", "00", wide, "", v.Sexp(), A(hx([]byte{9})), A(fmt.Sprint(capExtra)), A("ptr")), true, "app.capsweep")
		}
	}
	return "generated types and values (25% zero values that encode to nothing; no multi-entry maps), random prefix contents (0..40 bytes), spare capacity 0/1/8/64/4096 and every value below 40, a sweep of all capacities 0..64 under a struct of 10-byte varints, a time, a float and a string, by pointer and by value (incl. pointer-shaped structs), repeated calls; compared: the returned bytes = prefix ++ Marshal(nil, v); non-trivial = non-empty prefix"
}

// mutStream: the value changes in place between two Marshal calls (same map objects, same backing
// arrays, same pointees, nested structs at the same addresses); the second call re-uses a buffer.
func mutStream(r *Runner, g *Gen, n int) {
	// the value changes in place between two Marshal calls (same map objects, same backing arrays, same pointees)
	for i := 0; i < n; i++ {
		cfg := g.pickCfg()
		t := g.structType(2)
		if g.r.P(40) {
			// maps below a length-prefixed struct, sizes that differ between the two values
			inner := Struct(F("M", "1", Map(B("str"), B("str"))), F("L", "2", Slice(B("str"))), F("P", "3", Ptr(B("str"))))
			t = Struct(F("N", "1", inner), F("S", "2", Slice(inner)), F("Q", "3", Ptr(inner)))
		}
		b1, b2 := 30, 30
		v1, v2 := g.Value(t, &b1), g.Value(t, &b2)
		if g.r.P(50) {
			v2 = sameShape(g, t, v1) // same entry counts and lengths, other contents
		}
		if multiEntryMaps(v1) || multiEntryMaps(v2) {
			continue
		}
		r.Do(codecOp("mut", cfg, t, "", v1.Sexp(), v2.Sexp()), true, "mut")
	}
}

// ifaceShaped: struct types around the boundary of "stored directly in the
// interface data word": a single pointer / map field, the same with a zero-size
// marker field before or after it, nested single-field structs.
func (g *Gen) ifaceShaped() *TyDef {
	var inner *TyDef
	switch g.r.Intn(4) {
	case 0:
		inner = Ptr(B(g.r.Pick("int", "str", "uint8")))
	case 1:
		inner = Map(B("str"), B("int"))
	case 2:
		inner = Ptr(Struct(F("A", "1", B("int")), F("B", "2", B("str"))))
	default:
		inner = Struct(F("P", "1", Ptr(B("int"))))
	}
	marker := &FieldDef{Name: "_", Exported: false, T: Struct()}
	field := F("V", "1", inner)
	switch g.r.Intn(6) {
	case 0:
		return Struct(field)
	case 1:
		return Struct(marker, field)
	case 2:
		return Struct(field, marker)
	case 3, 4:
		// any depth of single-field nesting is still pointer-shaped
		t := Struct(field)
		for d := g.r.Intn(4); d >= 0; d-- {
			t = Struct(F("W", "2", t))
		}
		return t
	}
	return Struct(field, F("X", "2", B("int")))
}

// ---- C10 -------------------------------------------------------------------------

func runC10(r *Runner, g *Gen, tier string) string {
	n := scale(tier, 3000, 450000)
	for i := 0; i < n; i++ {
		cfg := g.pickCfg()
		t := g.topType(2)
		for t.K != "struct" && g.r.P(70) {
			t = g.structType(2)
		}
		b1, b2 := 30, 30
		prior := g.Value(t, &b1)
		v := g.Value(t, &b2)
		if g.r.P(12) {
			t, prior, v = g.reuseCase()
		}
		if knownShape(cfg, t, false) {
			continue
		}
		// a history on one instance: decode into a populated target, then into a fresh one
		switch g.r.Intn(4) {
		case 0:
			// the target's slices carry stale elements in their spare capacity
			r.Do(codecOp("decm", cfg, t, "", v.Sexp(), prior.Sexp(), A("stale")), true, "decm.stale-capacity")
		case 1:
			// … and are cut to length 0 first (`v = v[:0]`): what the decoder may see of them is nothing
			r.Do(codecOp("decm", cfg, t, "", v.Sexp(), emptiedSlices(t, prior).Sexp(), A("stale0"), prior.Sexp()), true, "decm.stale-truncated")
		default:
			r.Do(codecOp("decm", cfg, t, "", v.Sexp(), prior.Sexp()), true, "decm.prior")
		}
		r.Do(codecOp("decm", cfg, t, "", v.Sexp(), A("zero")), nontrivialVal(t, v), "decm.fresh-after")
	}
	// shared pointers in the target: the elements of the target's pointer slices are the SAME pointer
	// (equal values); a decode must clear the re-used array, not write through what it pointed to
	for i := 0; i < scale(tier, 300, 20000); i++ {
		cfg := g.pickCfg()
		pointee := g.r.PickT(B("int"), B("int8"), B("uint64"), B("bool"), B("uint8"), B("str"), Struct(F("A", "1", B("int")), F("B", "2", B("str"))), &TyDef{K: "time"}, B("f64"))
		if pointee.K == "f64" {
			pointee = B("int32") // slices of pointers to floats are rejected
		}
		st := Slice(Ptr(pointee))
		t := Struct(F("L", "1", st), F("X", "2", B("int")))
		switch g.r.Intn(4) {
		case 0:
			t = Struct(F("N", "3", Struct(F("L", "1", st))))
		case 1:
			t = Struct(F("P", "1", Ptr(Struct(F("L", "2", st)))), F("L", "2", st))
		}
		b := 12
		one := g.Value(Ptr(pointee), &b)
		for one.P == nil {
			b = 12
			one = g.Value(Ptr(pointee), &b)
		}
		fill := func(tt *TyDef, n int) *Val { // every pointer slice holds n copies of the one value
			var rec func(tt *TyDef) *Val
			rec = func(tt *TyDef) *Val {
				switch tt.K {
				case "struct":
					out := &Val{K: "r"}
					for _, f := range tt.Fields {
						out.L = append(out.L, rec(f.T))
					}
					return out
				case "ptr":
					return &Val{K: "p", P: rec(tt.Elem)}
				case "slice":
					out := &Val{K: "l"}
					for k := 0; k < n; k++ {
						out.L = append(out.L, one)
					}
					return out
				}
				return zeroVal(tt)
			}
			return rec(tt)
		}
		prior := fill(t, 2+g.r.Intn(4))
		b = 30
		v := g.Value(t, &b)
		if knownShape(cfg, t, false) {
			continue
		}
		r.Do(codecOp("decm", cfg, t, "", v.Sexp(), prior.Sexp(), A("alias")), true, "decm.alias")
	}
	poolHistories(r, g, scale(tier, 150, 6000))
	for _, n := range []int{1, 2, 3, 7, 20} {
		r.Do(L(A("ptrkeys"), A(fmt.Sprint(n))), true, "ptrkeys")
	}
	// the protobuf repeated form appends: every (prior length, new length) around the growth steps 0 -> 8 -> 16
	strs := func(n int, p string) *Val {
		out := &Val{K: "l"}
		for i := 0; i < n; i++ {
			out.L = append(out.L, &Val{K: "s", Data: []byte(fmt.Sprintf("%s%d", p, i))})
		}
		return out
	}
	pt := Struct(&FieldDef{Name: "S", Exported: true, Plenc: "1,proto", T: Slice(B("str"))})
	pt2 := Struct(F("S", "1", Slice(Struct(F("A", "1", B("int"))))))
	for _, nOld := range []int{0, 1, 2, 7, 8, 9, 15, 16, 17} {
		for _, nNew := range []int{1, 2, 7, 8, 9} {
			mode := []*Sexp{}
			if (nOld+nNew)%2 == 1 {
				mode = []*Sexp{A("stale")}
			}
			r.Do(codecOp("decm", "00", pt, "", append([]*Sexp{(&Val{K: "r", L: []*Val{strs(nNew, "n")}}).Sexp(), (&Val{K: "r", L: []*Val{strs(nOld, "old")}}).Sexp()}, mode...)...), true, "decm.proto-append")
			mk := func(n int, base int64) *Val {
				out := &Val{K: "l"}
				for i := 0; i < n; i++ {
					out.L = append(out.L, &Val{K: "r", L: []*Val{{K: "i", I: base + int64(i)}}})
				}
				return out
			}
			// written in the repeated form by a ProtoCompatibleArrays instance, appended by a default-mode one
			pt3 := Struct(F("S", "1", Slice(B("str"))))
			r.Do(L(append([]*Sexp{A("xdecm"), A("01"), A("00"), pt3.Sexp(), (&Val{K: "r", L: []*Val{strs(nNew, "n")}}).Sexp(), (&Val{K: "r", L: []*Val{strs(nOld, "old")}}).Sexp()}, mode...)...), true, "xdecm.proto-append")
			// struct elements whose new contents leave a field absent: the slot (fresh or reused capacity) must be cleared first
			pt4 := Struct(F("S", "1", Slice(Struct(F("A", "1", B("int")), F("B", "2", B("str"))))))
			mkAB := func(n int, a int64, b string) *Val {
				out := &Val{K: "l"}
				for i := 0; i < n; i++ {
					out.L = append(out.L, &Val{K: "r", L: []*Val{{K: "i", I: a}, {K: "s", Data: []byte(b)}}})
				}
				return out
			}
			r.Do(L(A("xdecm"), A("01"), A("00"), pt4.Sexp(), (&Val{K: "r", L: []*Val{mkAB(nNew, 0, "n")}}).Sexp(), (&Val{K: "r", L: []*Val{mkAB(nOld, 7, "old")}}).Sexp(), A("stale")), true, "xdecm.proto-append")
			r.Do(codecOp("decm", "01", pt4, "", (&Val{K: "r", L: []*Val{mkAB(nNew, 5, "")}}).Sexp(), (&Val{K: "r", L: []*Val{mkAB(nOld, 7, "old")}}).Sexp(), A("stale")), true, "decm.proto-append")
			r.Do(codecOp("decm", "01", pt2, "", append([]*Sexp{(&Val{K: "r", L: []*Val{mk(nNew, 100)}}).Sexp(), (&Val{K: "r", L: []*Val{mk(nOld, 1)}}).Sexp()}, mode...)...), true, "decm.proto-append")
		}
	}
	// a value that encodes to nothing, decoded into a populated scalar / string / time / slice target at top level
	for _, cfg := range cfgs {
		for _, tv := range [][2]*Val{
			{{K: "b"}, {K: "b", B: true}}, {{K: "i"}, {K: "i", I: -5}}, {{K: "u"}, {K: "u", U: 9}},
			{{K: "f32"}, {K: "f32", U: 0x3fc00000}}, {{K: "f64"}, {K: "f64", U: 0x4009000000000000}},
			{{K: "s"}, {K: "s", Data: []byte("old")}}, {{K: "y"}, {K: "y", Data: []byte{1, 2}}},
			{{K: "T", Sec: -62135596800}, {K: "T", Sec: 1700000000, Nsec: 5}},
		} {
			var t *TyDef
			switch tv[0].K {
			case "b":
				t = B("bool")
			case "i":
				t = B("int32")
			case "u":
				t = B("uint16")
			case "f32":
				t = B("f32")
			case "f64":
				t = B("f64")
			case "s":
				t = B("str")
			case "y":
				t = Slice(B("uint8"))
			case "T":
				t = &TyDef{K: "time"}
			}
			r.Do(codecOp("decm", cfg, t, "", tv[0].Sexp(), tv[1].Sexp()), true, "decm.top-zero")
			if t.K != "slice" {
				// the same kinds as elements of a reused slice and as a field behind a reused pointer
				st := Struct(F("L", "1", Slice(t)), F("P", "2", Ptr(t)))
				r.Do(codecOp("decm", cfg, st, "", (&Val{K: "r", L: []*Val{{K: "l", L: []*Val{tv[0], tv[1]}}, {K: "p", P: tv[0]}}}).Sexp(),
					(&Val{K: "r", L: []*Val{{K: "l", L: []*Val{tv[1], tv[1], tv[1]}}, {K: "p", P: tv[1]}}}).Sexp()), true, "decm.elem-zero")
			}
		}
	}
	return "pairs (prior target contents, encoded value) of one generated type: Unmarshal into a target pre-populated with an unrelated value (longer/shorter slices, populated maps, non-nil pointers), then into a fresh variable through the same instance; compared: the full target value after each call (merge rules) ; the instance is shared by all ops of the run (pools, intern tables, codec caches carry history)"
}

// sameShape: a value with the same structure as v (same presence, same lengths,
// same map keys) whose strings and byte slices have other lengths and whose
// numbers differ.
func sameShape(g *Gen, t *TyDef, v *Val) *Val {
	u := t.under()
	switch v.K {
	case "s":
		return &Val{K: "s", Data: append(append([]byte(nil), v.Data...), g.r.Bytes(1+g.r.Intn(200))...)}
	case "y":
		return &Val{K: "y", Data: append(append([]byte(nil), v.Data...), g.r.Bytes(1+g.r.Intn(200))...)}
	case "i":
		return &Val{K: "i", I: v.I ^ 0x55}
	case "u":
		return &Val{K: "u", U: v.U ^ 0x55}
	case "p":
		if v.P == nil {
			return v
		}
		return &Val{K: "p", P: sameShape(g, u.Elem, v.P)}
	case "l":
		out := &Val{K: "l"}
		for _, e := range v.L {
			out.L = append(out.L, sameShape(g, u.Elem, e))
		}
		return out
	case "m":
		out := &Val{K: "m"}
		for _, e := range v.M {
			out.M = append(out.M, [2]*Val{e[0], sameShape(g, u.Elem, e[1])})
		}
		return out
	case "r":
		out := &Val{K: "r"}
		j := 0
		for _, f := range u.Fields {
			if !fieldEncoded(f) {
				continue
			}
			out.L = append(out.L, sameShape(g, f.T, v.L[j]))
			j++
		}
		return out
	}
	return v
}

// poolHistories: a decode that FAILS part-way (inside a map key, a map value, a
// slice element, a nested struct) may leave half-written scratch values in the
// instance's pools; the decodes that follow, into fresh variables, must not see them.
func poolHistories(r *Runner, g *Gen, n int) {
	key := Struct(F("A", "1", B("int")), F("B", "2", B("str")), F("C", "3", B("uint16")))
	types := []*TyDef{
		Struct(F("M", "1", Map(key, B("int")))),
		Struct(&FieldDef{Name: "M", Exported: true, Plenc: "1,proto", T: Map(key, B("int"))}),
		Struct(F("M", "1", Map(key, Ptr(key)))),
		Struct(F("M", "1", Map(B("str"), key)), F("L", "2", Slice(key))),
		Map(key, B("str")),
	}
	full := func(a int64, b string, c uint64) *Val {
		return &Val{K: "r", L: []*Val{{K: "i", I: a}, {K: "s", Data: []byte(b)}, {K: "u", U: c}}}
	}
	for i := 0; i < n; i++ {
		cfg := g.pickCfg()
		t := types[g.r.Intn(len(types))]
		// 1. a valid encoding with fully populated keys, damaged so that a later part of a key / value fails
		var poison *Val
		entry := func(k *Val) [2]*Val {
			switch {
			case t.K == "map" || t.Fields[0].T.Elem.K == "int":
				if t.K == "map" {
					return [2]*Val{k, {K: "s", Data: []byte("v")}}
				}
				return [2]*Val{k, {K: "i", I: 1}}
			case t.Fields[0].T.Elem.K == "ptr":
				return [2]*Val{k, {K: "p", P: full(5, "pv", 6)}}
			}
			return [2]*Val{{K: "s", Data: []byte("k")}, k}
		}
		mk := func(k *Val) *Val {
			m := &Val{K: "m", M: [][2]*Val{entry(k)}}
			if t.K == "map" {
				return m
			}
			out := &Val{K: "r", L: []*Val{m}}
			if len(t.Fields) > 1 {
				out.L = append(out.L, &Val{K: "l", L: []*Val{k}})
			}
			return out
		}
		poison = mk(full(int64(70+g.r.Intn(9)), "stale-string", uint64(300+g.r.Intn(9))))
		res := execOp(codecOp("enc", cfg, t, "", poison.Sexp()))
		if !strings.HasPrefix(res, "ok x") {
			continue
		}
		enc, _ := unhx(res[3:])
		for k := 0; k < 3 && len(enc) > 4; k++ {
			m := append([]byte(nil), enc...)
			switch g.r.Intn(3) {
			case 0:
				m = m[:len(m)-1-g.r.Intn(len(m)/2)] // cut inside the last entry
			case 1:
				p := len(m)/2 + g.r.Intn(len(m)/2)
				m[p] |= 0x80 // a length / varint somewhere in the second half grows
			case 2:
				p := len(m)/2 + g.r.Intn(len(m)/2)
				m[p] = 0xff
			}
			r.Do(codecOp("dec", cfg, t, "", A(hx(m)), A("zero")), true, "pool.poison")
		}
		// 2. valid values whose keys / elements leave fields at zero, into fresh variables
		for k := 0; k < 2; k++ {
			sparse := full(0, "x", 0)
			if k == 1 {
				sparse = full(0, "", 7)
			}
			r.Do(codecOp("decm", cfg, t, "", mk(sparse).Sexp(), A("zero")), true, "pool.fresh-after")
		}
	}
}

// reuseCase: containers of structs and of pointers to structs whose target is
// fully populated with non-zero values at least as long as the new contents, and
// whose new elements leave fields at zero (absent from the data): every reused
// slot, pointee and key must be cleared or replaced, not merged into.
func (g *Gen) reuseCase() (*TyDef, *Val, *Val) {
	inner := Struct(F("A", "1", B("int")), F("B", "2", B("str")), F("C", "3", Ptr(B("int"))), F("D", "4", Slice(B("int"))))
	full := func(k int64) *Val {
		return &Val{K: "r", L: []*Val{{K: "i", I: 100 + k}, {K: "s", Data: []byte(fmt.Sprintf("old%d", k))},
			{K: "p", P: &Val{K: "i", I: 7 + k}}, {K: "l", L: []*Val{{K: "i", I: k + 1}, {K: "i", I: k + 2}}}}}
	}
	sparse := func() *Val {
		out := &Val{K: "r", L: []*Val{{K: "i"}, {K: "s"}, {K: "p"}, {K: "l"}}}
		switch g.r.Intn(4) {
		case 0:
			out.L[0] = &Val{K: "i", I: int64(1 + g.r.Intn(9))}
		case 1:
			out.L[1] = &Val{K: "s", Data: []byte("n")}
		case 2:
			out.L[2] = &Val{K: "p", P: &Val{K: "i"}}
		}
		return out
	}
	ptr := func(v *Val) *Val { return &Val{K: "p", P: v} }
	t := Struct(F("PS", "1", Slice(Ptr(inner))), F("VS", "2", Slice(inner)), F("P", "3", Ptr(inner)),
		F("M", "4", Map(B("str"), Ptr(inner))), F("V", "5", inner))
	nOld := 2 + g.r.Intn(4)
	nNew := 1 + g.r.Intn(nOld)
	prior := &Val{K: "r", L: []*Val{{K: "l"}, {K: "l"}, ptr(full(50)), {K: "m", M: [][2]*Val{{{K: "s", Data: []byte("k")}, ptr(full(60))}}}, full(70)}}
	for i := 0; i < nOld; i++ {
		prior.L[0].L = append(prior.L[0].L, ptr(full(int64(i))))
		prior.L[1].L = append(prior.L[1].L, full(int64(10+i)))
	}
	v := &Val{K: "r", L: []*Val{{K: "l"}, {K: "l"}, ptr(sparse()), {K: "m", M: [][2]*Val{{{K: "s", Data: []byte("k")}, ptr(sparse())}}}, sparse()}}
	for i := 0; i < nNew; i++ {
		v.L[0].L = append(v.L[0].L, ptr(sparse()))
		v.L[1].L = append(v.L[1].L, sparse())
	}
	if g.r.P(30) {
		v.L[0] = &Val{K: "l"} // field absent: the old slice stays
	}
	g.count("decm.reuse-case")
	return t, prior, v
}

// presentButEmpty: the zero value of t, except that every pointer (at any depth
// reachable without going through a nil) is non-nil: the fields are present in
// the data but carry nothing.
func presentButEmpty(t *TyDef) *Val {
	u := t.under()
	switch u.K {
	case "ptr":
		if u.Elem.under().K == "ptr" {
			return zeroVal(t)
		}
		return &Val{K: "p", P: presentButEmpty(u.Elem)}
	case "struct":
		out := &Val{K: "r"}
		for _, f := range u.Fields {
			if fieldEncoded(f) {
				out.L = append(out.L, presentButEmpty(f.T))
			}
		}
		return out
	case "ext":
		return &Val{K: "p", P: zeroVal(extPayload[u.Name])} // valid, with the zero payload
	}
	return zeroVal(t)
}

// emptiedSlices: the value with its own slice (top level) or its slice-typed fields
// (one level) emptied — what remains visible of a target after `v = v[:0]`.
func emptiedSlices(t *TyDef, v *Val) *Val {
	u := t.under()
	switch u.K {
	case "slice":
		if u.isBytes() {
			return &Val{K: "y"}
		}
		return &Val{K: "l"}
	case "struct":
		out := &Val{K: "r"}
		j := 0
		for _, f := range u.Fields {
			if !fieldEncoded(f) {
				continue
			}
			fv := v.L[j]
			if fu := f.T.under(); fu.K == "slice" {
				if fu.isBytes() {
					fv = &Val{K: "y"}
				} else {
					fv = &Val{K: "l"}
				}
			}
			out.L = append(out.L, fv)
			j++
		}
		return out
	}
	return v
}

// ---- C03 -------------------------------------------------------------------------

// evolveType derives S' from S: remove fields, add fields under fresh indexes,
// rename, reorder — recursively through structs, pointers, slices and map values.
func (g *Gen) evolveType(t *TyDef, depth int) *TyDef {
	switch t.K {
	case "ptr":
		return Ptr(g.evolveType(t.Elem, depth))
	case "slice":
		if t.isBytes() {
			return t
		}
		return Slice(g.evolveType(t.Elem, depth))
	case "map":
		return Map(t.Key, g.evolveType(t.Elem, depth))
	case "struct":
		if t.Name != "" {
			return t
		}
		used := map[int]bool{}
		for _, f := range t.Fields {
			if fieldEncoded(f) {
				idx, _ := splitTag(f.Plenc)
				used[idx] = true
			}
		}
		var fs []*FieldDef
		// a nested struct now and then loses ALL its fields (or keeps only fields that are not encoded): the
		// reader's type for it is empty, the data still carries a payload for it
		emptied := depth > 0 && g.r.P(12)
		if emptied {
			g.count("evolve.emptied")
			switch g.r.Intn(3) {
			case 0:
				return Struct()
			case 1:
				return Struct(&FieldDef{Name: "Gone", Exported: true, Plenc: "-", T: B("int")})
			}
			return Struct(&FieldDef{Name: "hidden", Exported: false, Plenc: "1", T: B("str")})
		}
		for _, f := range t.Fields {
			if fieldEncoded(f) && g.r.P(25) {
				g.count("evolve.removed")
				continue // removed
			}
			nf := *f
			if fieldEncoded(f) {
				nf.T = g.evolveType(f.T, depth+1)
				if g.r.P(30) {
					nf.Name = f.Name + "R" // renamed
					g.count("evolve.renamed")
				}
			}
			fs = append(fs, &nf)
		}
		for k := g.r.Intn(3); k > 0; k-- {
			idx := 1 + g.r.Intn(40)
			for used[idx] {
				idx = 1 + g.r.Intn(40)
			}
			used[idx] = true
			fc := g.fieldType(1)
			tag := fmt.Sprint(idx)
			if fc.opt != "" {
				tag += "," + fc.opt
			}
			fs = append(fs, &FieldDef{Name: fmt.Sprintf("N%d", idx), Exported: true, Plenc: tag, T: fc.t})
			g.count("evolve.added")
		}
		// reorder
		if g.r.P(50) {
			for i := len(fs) - 1; i > 0; i-- {
				j := g.r.Intn(i + 1)
				fs[i], fs[j] = fs[j], fs[i]
			}
			g.count("evolve.reordered")
		}
		return Struct(fs...)
	}
	return t
}

func runC03(r *Runner, g *Gen, tier string) string {
	n := scale(tier, 3000, 450000)
	for i := 0; i < n; i++ {
		cfg := g.pickCfg()
		s := g.structType(3)
		s2 := g.evolveType(s, 0)
		b := 40
		v := g.Value(s, &b)
		if g.r.P(15) {
			v = presentButEmpty(s) // every pointer set, everything it points to zero: present with nothing inside
		}
		var prior *Sexp = A("zero")
		if g.r.P(50) {
			b2 := 30
			prior = g.Value(s2, &b2).Sexp()
		}
		c := A(cfg)
		r.Do(L(A("evolve"), c, s.Sexp(), s2.Sexp(), v.Sexp(), prior), nontrivialVal(s, v), "evolve")
	}
	return "pairs (S, S') where S' is derived from a generated struct S by removing fields, adding fields of random types under fresh indexes, renaming and shuffling declarations, recursively through nested structs, pointers, slices and map values; values of S with unknown fields of every wire type followed by known fields; target fresh or pre-populated; compared: the complete decoded value"
}

// ---- C12 -------------------------------------------------------------------------

func runC12(r *Runner, g *Gen, tier string) string {
	n := scale(tier, 2500, 100000)
	for i := 0; i < n; i++ {
		g.proto = true // generate only shapes that are valid struct-rooted proto shapes
		g.ptrSlices = true
		t := g.structType(3)
		b := 40
		v := g.Value(t, &b)
		for _, cfg := range cfgs {
			if multiEntryMaps(v) {
				res := execOp(codecOp("enc", cfg, t, "", v.Sexp()))
				if strings.HasPrefix(res, "ok ") {
					r.Do(codecOp("encm", cfg, t, "", v.Sexp(), A(res[3:])), true, "encm."+cfg)
				}
			} else {
				r.Do(codecOp("enc", cfg, t, "", v.Sexp()), nontrivialVal(t, v), "enc."+cfg)
			}
			r.Do(codecOp("rt", cfg, t, "", v.Sexp()), nontrivialVal(t, v), "rt."+cfg)
		}
		// a default-mode instance reads the repeated-field form of slices
		r.Do(L(A("xdec"), A("01"), A("00"), t.Sexp(), v.Sexp()), nontrivialVal(t, v), "xdec.01-00")
		r.Do(L(A("xdec"), A("11"), A("10"), t.Sexp(), v.Sexp()), nontrivialVal(t, v), "xdec.11-10")
	}
	// what must not be accepted in these modes is not: slices and maps of (pointers to pointers to …) slices
	for _, cfg := range []string{"01", "11"} {
		for _, inner := range []*TyDef{B("str"), Struct(F("A", "1", B("int"))), {K: "time"}} {
			for _, t := range []*TyDef{Slice(Slice(inner)), Slice(Ptr(Slice(inner))), Slice(Ptr(Ptr(Slice(inner)))), Slice(Ptr(Ptr(Ptr(Slice(inner))))),
				Map(B("str"), Ptr(Ptr(Slice(inner)))), Map(B("str"), Slice(inner))} {
				r.Do(codecOp("build", cfg, Struct(F("A", "1", t)), "", A("5")), true, "build.nested-proto")
			}
		}
	}
	// null types under both options (read back by the independent protobuf reader)
	for i := 0; i < n/10; i++ {
		g.proto = true
		t := g.presenceStruct(1)
		b := 30
		v := g.Value(t, &b)
		if knownShape("11", t, false) || multiEntryMaps(v) {
			continue
		}
		r.Do(codecOp("enc", "(cfg 11 null)", t, "", v.Sexp()), true, "enc.null")
	}
	return "struct-rooted generated types (maps optionally proto-tagged) and values under all four option combinations: bytes compared exactly with the model and the reference encoder, round trip in each mode, and the repeated-field form written by a ProtoCompatibleArrays instance read back by a default-mode instance; oracle: an independent protobuf reader (field numbers >= 1, wire types 0,1,2,5, exact lengths, zig-zag sint64, packed scalars, repeated elements, map entries, Timestamp) reconstructs the encoded value from the bytes written under the proto options; null types under both options"
}
