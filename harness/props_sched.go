package main

import (
	"fmt"
	"strings"
)

func init() { propRunners["C07"] = runC07 }

func schedOp(fam string, nthreads int, seed uint64, schedule []int) *Sexp {
	var items []*Sexp
	for _, t := range schedule {
		items = append(items, A(fmt.Sprint(t)))
	}
	return L(A("sched"), A(fam), A(fmt.Sprint(nthreads)), A(fmt.Sprint(seed)), L(items...))
}

func runC07(r *Runner, g *Gen, tier string) string {
	// systematic: default schedule = run worker 0 to completion, then 1, ...; with up to
	// `pre` preemptions placed at every step position (2 workers), then random schedules
	maxSteps := scale(tier, 36, 80)
	for _, f := range schedFamilies {
		// 0 preemptions, both orders
		r.Do(schedOp(f.name, 2, 1, nil), true, "sched.serial")
		r.Do(schedOp(f.name, 2, 1, repeat(1, 200)), true, "sched.serial")
		// 1 preemption at every position; 2 preemptions on a grid
		for i := 1; i < maxSteps; i++ {
			r.Do(schedOp(f.name, 2, 1, append(repeat(0, i), repeat(1, 200)...)), true, "sched.pre1")
		}
		stride := scale(tier, 4, 2)
		for i := 1; i < maxSteps; i += stride {
			for j := 1; j < maxSteps; j += stride {
				s := append(append(repeat(0, i), repeat(1, j)...), repeat(0, 200)...)
				r.Do(schedOp(f.name, 2, 1, s), true, "sched.pre2")
			}
		}
	}
	// trace correspondence: the recorded accesses of the shared registry replayed on the Lean protocol model
	for _, f := range regFamilies {
		r.Do(makeRegTraceOp(f.name, 2, nil), true, "regtrace.serial")
		r.Do(makeRegTraceOp(f.name, 2, repeat(1, 400)), true, "regtrace.serial")
		for i := 1; i < maxSteps; i += 2 {
			r.Do(makeRegTraceOp(f.name, 2, append(repeat(0, i), repeat(1, 400)...)), true, "regtrace.pre1")
		}
	}
	nt := scale(tier, 300, 20000)
	for i := 0; i < nt; i++ {
		f := regFamilies[g.r.Intn(len(regFamilies))]
		k := 2 + g.r.Intn(2)
		var s []int
		for j := 0; j < 150; j++ {
			s = append(s, g.r.Intn(k))
		}
		r.Do(makeRegTraceOp(f.name, k, s), true, "regtrace.random")
	}
	// decode scratch pools: failed decodes followed by decodes into fresh variables (sequential histories; the
	// concurrent use of one codec's scratch state is the protomap family)
	poolHistories(r, g, scale(tier, 60, 2000))
	// shared interning tables (the protocol itself is C19's subject): large table, then a race
	internLargeOps(r, scale(tier, 3, 24))
	internSchedOps(r, g, scale(tier, 250, 8000))
	n := scale(tier, 300, 20000)
	for i := 0; i < n; i++ {
		f := schedFamilies[g.r.Intn(len(schedFamilies))]
		if g.r.P(30) {
			f = schedFamilies[len(schedFamilies)-1] // shared-codec decode
		}
		nt := 2 + g.r.Intn(2)
		var s []int
		for k := 0; k < 120; k++ {
			s = append(s, g.r.Intn(nt))
		}
		r.Do(schedOp(f.name, nt, uint64(1+g.r.Intn(5)), s), true, "sched.random")
	}
	return "deterministic scheduling over the yield points compiled into plenc (registry load/storeOrSwap, struct field / index / publish): 2-3 goroutines trigger the first-ever construction of codecs for mutually recursive, recursive, nested and map-recursive type families on a fresh instance; all placements of 1 preemption and a grid of 2 preemptions, then random schedules; oracle: every goroutine's result (bytes and decoded value) equals what it returns when run alone, no panic, no deadlock"
}

func repeat(v, n int) []int {
	out := make([]int, n)
	for i := range out {
		out[i] = v
	}
	return out
}

func oracleSched(op *Sexp, res string) []string {
	if res != "same" {
		return []string{"concurrent result differs from running alone: " + res + " | trace: " + schedLastTrace}
	}
	return nil
}

var _ = strings.Join
