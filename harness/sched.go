package main

import (
	"bytes"
	"fmt"
	"reflect"
	"runtime"
	"sort"
	"strconv"
	"strings"
	"sync"
	"time"

	"github.com/philpearl/plenc"
	"github.com/philpearl/plenc/plenccodec"
	"github.com/philpearl/plenc/verifhook"
)

// A deterministic scheduler over the yield points compiled into plenc with the
// verif tag: worker goroutines park at every instrumented shared access; the
// scheduler releases one at a time following a schedule (a list of worker ids),
// and records the trace of (worker, point, key).

type schedEvent struct {
	tid   int
	point string
	key   string
	raw   interface{}
}

type sched struct {
	mu      sync.Mutex
	gids    map[int64]int // goroutine id -> worker id
	parked  map[int]chan struct{}
	where   map[int]schedEvent
	arrive  chan int
	done    map[int]bool
	trace   []schedEvent
	keyName map[interface{}]string
}

func goid() int64 {
	var buf [64]byte
	n := runtime.Stack(buf[:], false)
	f := bytes.Fields(buf[:n])
	id, _ := strconv.ParseInt(string(f[1]), 10, 64)
	return id
}

func (s *sched) nameKey(k interface{}) string {
	if tt, ok := k.(verifhook.TypeTag); ok {
		t := tt.Typ.(reflect.Type)
		n := t.String()
		if t.Name() != "" {
			n = t.Name()
		}
		if tt.Tag != "" {
			n += "|" + tt.Tag
		}
		return n
	}
	if t, ok := k.(reflect.Type); ok {
		if t.Name() != "" {
			return t.Name()
		}
		return t.String()
	}
	if n, ok := s.keyName[k]; ok {
		return n
	}
	n := fmt.Sprintf("k%d", len(s.keyName))
	s.keyName[k] = n
	return n
}

func (s *sched) yield(point string, key interface{}) {
	g := goid()
	s.mu.Lock()
	tid, ok := s.gids[g]
	if !ok {
		s.mu.Unlock()
		return // not a scheduled worker
	}
	ch := make(chan struct{})
	s.parked[tid] = ch
	s.where[tid] = schedEvent{tid, point, s.nameKey(key), key}
	s.mu.Unlock()
	select { // a wake-up for the scheduler; it re-reads the parked set (and polls) anyway
	case s.arrive <- tid:
	default:
	}
	<-ch
}

type schedResult struct {
	results []string // per worker
	trace   []schedEvent
	panics  []string
}

// runScheduled runs the workers under the schedule. schedule[i] = the worker to
// release at step i (if it is not parked, the lowest parked worker is released);
// when the schedule is exhausted, workers run lowest-id-first.
// stepInvariant, when set, is evaluated at every scheduling point (all workers
// parked or blocked): it checks on the REAL shared state the invariant the Lean
// protocol model proves for every reachable state. A non-empty result is a violation.
var stepInvariant func() string

func runScheduled(workers []func() string, schedule []int) schedResult {
	s := &sched{gids: map[int64]int{}, parked: map[int]chan struct{}{}, where: map[int]schedEvent{},
		arrive: make(chan int, len(workers)*4), done: map[int]bool{}, keyName: map[interface{}]string{}}
	verifhook.Yield = s.yield
	defer func() { verifhook.Yield = nil }()
	res := schedResult{results: make([]string, len(workers))}
	var pm sync.Mutex
	finished := make(chan int, len(workers))
	for i, w := range workers {
		i, w := i, w
		ready := make(chan struct{})
		go func() {
			s.mu.Lock()
			s.gids[goid()] = i
			s.mu.Unlock()
			close(ready)
			s.yield("start", i)
			defer func() {
				if r := recover(); r != nil {
					pm.Lock()
					res.panics = append(res.panics, fmt.Sprintf("worker %d: %v", i, r))
					pm.Unlock()
					res.results[i] = "panic"
				}
				finished <- i
			}()
			res.results[i] = w()
		}()
		<-ready
	}
	// wait until every worker is parked at "start"
	step := 0
	ndone := 0
	// quiesce: wait until every worker is parked at a yield point, finished, or
	// blocked on a mutex (its goroutine's wait reason says so). Only then is the
	// next worker released, so at most one worker runs at a time and the order of
	// releases is the order in which the instrumented accesses happen. (A worker
	// woken by another's Unlock runs alongside it for a moment; both are waited
	// for, and neither touches shared state before its next yield point.)
	quiesce := func() bool {
		deadline := time.Now().Add(20 * time.Second)
		for {
			s.mu.Lock()
			var inflight []int
			for t := 0; t < len(workers); t++ {
				if _, ok := s.parked[t]; !ok && !s.done[t] {
					inflight = append(inflight, t)
				}
			}
			s.mu.Unlock()
			if len(inflight) == 0 {
				return true
			}
			select {
			case <-s.arrive:
			case id := <-finished:
				s.mu.Lock()
				s.done[id] = true
				s.mu.Unlock()
				ndone++
			case <-time.After(2 * time.Millisecond):
				blocked := mutexBlocked(s, inflight)
				if blocked == len(inflight) {
					return true
				}
				if time.Now().After(deadline) {
					res.panics = append(res.panics, "hang: a released worker neither reached a yield point nor finished within 20s")
					return false
				}
			}
		}
	}
	if !quiesce() {
		return res
	}
	for ndone < len(workers) {
		s.mu.Lock()
		var cands []int
		for t := 0; t < len(workers); t++ {
			if _, ok := s.parked[t]; ok {
				cands = append(cands, t)
			}
		}
		s.mu.Unlock()
		if len(cands) == 0 {
			// every unfinished worker is blocked on a mutex nobody will release
			res.panics = append(res.panics, "deadlock: no worker can make progress")
			return res
		}
		if stepInvariant != nil {
			if msg := stepInvariant(); msg != "" {
				res.panics = append(res.panics, fmt.Sprintf("invariant violated at step %d: %s", step, msg))
				stepInvariant = nil
			}
		}
		pick := cands[0]
		if step < len(schedule) {
			for _, c := range cands {
				if c == schedule[step] {
					pick = c
				}
			}
		}
		step++
		s.mu.Lock()
		ch := s.parked[pick]
		delete(s.parked, pick)
		res.trace = append(res.trace, s.where[pick])
		s.mu.Unlock()
		close(ch)
		if !quiesce() {
			return res
		}
	}
	return res
}

// mutexBlocked: how many of the given workers' goroutines are waiting for a mutex.
func mutexBlocked(s *sched, tids []int) int {
	buf := make([]byte, 1<<20)
	n := runtime.Stack(buf, true)
	dump := string(buf[:n])
	s.mu.Lock()
	defer s.mu.Unlock()
	cnt := 0
	for _, t := range tids {
		for g, tid := range s.gids {
			if tid != t {
				continue
			}
			hdr := fmt.Sprintf("goroutine %d [", g)
			if i := strings.Index(dump, hdr); i >= 0 {
				rest := dump[i+len(hdr):]
				if strings.HasPrefix(rest, "sync.Mutex.Lock") || strings.HasPrefix(rest, "semacquire") || strings.HasPrefix(rest, "sync.RWMutex") {
					cnt++
				}
			}
		}
	}
	return cnt
}

func traceString(tr []schedEvent) string {
	var parts []string
	for _, e := range tr {
		parts = append(parts, fmt.Sprintf("%d:%s:%s", e.tid, e.point, e.key))
	}
	return strings.Join(parts, " ")
}

// ---- C07 family: concurrent first use of type families ---------------------------

type schedFamily struct {
	name  string
	types []reflect.Type
	// pre, when set, runs on the shared instance before the workers start (a history
	// the concurrent phase must not be affected by)
	pre func(p *plenc.Plenc)
}

// PoolMaps: plain maps whose decode uses pooled key scratch
type PoolMaps struct {
	M map[int64]int64 `plenc:"1"`
	K map[Inner2]int  `plenc:"2"`
	S map[string]int  `plenc:"3"`
}

// failedMapDecodes: decodes of PoolMaps that fail inside an entry (after the key was read), several times
func failedMapDecodes(p *plenc.Plenc) {
	v := PoolMaps{M: map[int64]int64{5: 6}, K: map[Inner2]int{{X: 7, Y: "y"}: 1}, S: map[string]int{"k": 2}}
	data, err := p.Marshal(nil, &v)
	if err != nil {
		return
	}
	for cut := 1; cut < len(data); cut++ {
		var out PoolMaps
		_ = p.Unmarshal(data[:cut], &out)
		bad := append([]byte(nil), data...)
		bad[cut] |= 0x80
		_ = p.Unmarshal(bad, &out)
	}
}

var schedFamilies = []schedFamily{
	{"mutual", []reflect.Type{reflect.TypeOf(MutA{}), reflect.TypeOf(MutB{})}, nil},
	{"rec", []reflect.Type{reflect.TypeOf(Rec{}), reflect.TypeOf([]Rec{})}, nil},
	{"nested", []reflect.Type{reflect.TypeOf(Outer{}), reflect.TypeOf(Inner{})}, nil},
	{"recmap", []reflect.Type{reflect.TypeOf(RecMap{}), reflect.TypeOf(&RecMap{})}, nil},
	// one codec, several goroutines decoding different values at once (scratch keys, pools)
	{"protomap", []reflect.Type{reflect.TypeOf(ProtoMapHolder{})}, nil},
	// the same for plain maps, after decodes that failed part-way through an entry on this instance
	{"poolpoison", []reflect.Type{reflect.TypeOf(PoolMaps{})}, failedMapDecodes},
}

// workerFor: first use of a type on a fresh instance: build the codec, marshal a
// fixed value of it, unmarshal it again; the result string is the canonical outcome.
func workerFor(p *plenc.Plenc, rt reflect.Type, seed uint64) func() string {
	return func() string {
		td := FromRT(rt, 3)
		g := &Gen{r: NewRNG(seed), stats: map[string]int{}}
		b := 12
		v := g.Value(td, &b)
		pv := reflect.New(rt)
		if err := v.ToReflect(pv.Elem(), td); err != nil {
			return "bad " + err.Error()
		}
		if _, err := p.CodecForType(rt); err != nil {
			return "builderr"
		}
		data, err := p.Marshal(nil, pv.Interface())
		if err != nil {
			return "err"
		}
		out := reflect.New(rt)
		if err := p.Unmarshal(data, out.Interface()); err != nil {
			return "err"
		}
		if multiEntryMaps(v) {
			// bytes are fixed only up to map iteration order
			return FromReflect(out.Elem(), td).String()
		}
		return hx(data) + " " + FromReflect(out.Elem(), td).String()
	}
}

// registryComplete checks (I1) of lean/Props/C07.lean on the real registry: every
// codec reachable from a published entry is a complete struct codec or a non-struct codec.
func registryComplete(p *plenc.Plenc) string {
	seen := map[*plenccodec.StructCodec]bool{}
	var walk func(c plenccodec.Codec) string
	walk = func(c plenccodec.Codec) string {
		switch c := c.(type) {
		case *plenccodec.StructCodec:
			if seen[c] {
				return ""
			}
			seen[c] = true
			if !c.VerifComplete() {
				return "an incomplete struct codec for " + c.VerifName() + " is reachable from the shared registry"
			}
			for _, f := range c.VerifFields() {
				if f.Codec == nil {
					return "a struct codec with an unset field codec is reachable from the shared registry"
				}
				if m := walk(f.Codec); m != "" {
					return m
				}
			}
		case plenccodec.PointerWrapper:
			return walk(c.Underlying)
		case plenccodec.WTLengthSliceWrapper:
			return walk(c.Underlying)
		case plenccodec.ProtoSliceWrapper:
			return walk(c.Underlying)
		case plenccodec.WTVarIntSliceWrapper:
			return walk(c.Underlying)
		case plenccodec.WTFixedSliceWrapper:
			return walk(c.Underlying)
		case *plenccodec.MapCodec:
			k, v := c.VerifKV()
			if m := walk(k); m != "" {
				return m
			}
			return walk(v)
		case plenccodec.ProtoMapCodec:
			k, v := c.VerifKV()
			if m := walk(k); m != "" {
				return m
			}
			return walk(v)
		}
		return ""
	}
	for _, c := range p.VerifRegistry() {
		if m := walk(c); m != "" {
			return m
		}
	}
	return ""
}

// execSched: (sched family nthreads seed (schedule...)) → results and trace
func execSched(s *Sexp) string {
	fam := s.List[1].Atom
	nthreads, _ := strconv.Atoi(s.List[2].Atom)
	seed, _ := strconv.ParseUint(s.List[3].Atom, 10, 64)
	var schedule []int
	for _, it := range s.List[4].List {
		n, _ := strconv.Atoi(it.Atom)
		schedule = append(schedule, n)
	}
	var f *schedFamily
	for i := range schedFamilies {
		if schedFamilies[i].name == fam {
			f = &schedFamilies[i]
		}
	}
	if f == nil {
		return "bad-op"
	}
	mk := func() (*plenc.Plenc, []func() string) {
		p := &plenc.Plenc{}
		p.RegisterDefaultCodecs()
		var ws []func() string
		for i := 0; i < nthreads; i++ {
			ws = append(ws, workerFor(p, f.types[i%len(f.types)], seed+uint64(i)))
		}
		return p, ws
	}
	// sequential reference: each worker alone on its own fresh instance
	var want []string
	for i := 0; i < nthreads; i++ {
		_, ws := mk()
		want = append(want, guard(ws[i]))
	}
	pShared, ws := mk()
	if f.pre != nil {
		f.pre(pShared)
	}
	stepInvariant = func() string { return registryComplete(pShared) }
	res := runScheduled(ws, schedule)
	stepInvariant = nil
	if m := registryComplete(pShared); m != "" {
		res.panics = append(res.panics, "invariant violated at the end: "+m)
	}
	ok := "same"
	for i := range want {
		if res.results[i] != want[i] {
			ok = fmt.Sprintf("DIFF worker %d: got %s want %s", i, res.results[i], want[i])
			break
		}
	}
	if len(res.panics) > 0 {
		ok = "PANIC " + strings.Join(res.panics, "; ")
	}
	schedLastTrace = traceString(res.trace)
	return ok
}

var schedLastTrace string

// ---- C19 concurrency: goroutines decode through ONE shared interned field --------

type internHolder struct {
	S string `plenc:"1,intern"`
}

// execInternSched: (internsched (reqs (xA xB) (xC …) …) (schedule…)): every goroutine
// decodes its inputs through the same freshly built interned field under the
// given schedule of the intern yield points. At every scheduling point the
// published table must satisfy the model's invariant (every key maps to itself)
// and must extend the previous one.
func parseInternReqs(s *Sexp) (reqs [][][]byte, schedule []int, ok bool) {
	for _, th := range s.List[1].List[1:] {
		var ds [][]byte
		for _, it := range th.List {
			d, err := unhx(it.Atom)
			if err != nil {
				return nil, nil, false
			}
			ds = append(ds, d)
		}
		reqs = append(reqs, ds)
	}
	for _, it := range s.List[2].List {
		n, _ := strconv.Atoi(it.Atom)
		schedule = append(schedule, n)
	}
	return reqs, schedule, true
}

func execInternSched(s *Sexp) string {
	reqs, schedule, ok := parseInternReqs(s)
	if !ok {
		return "bad-op"
	}
	out, _, _ := runInternSched(reqs, schedule)
	return out
}

// runInternSched: result line, the recorded trace, the keys of the final table
func runInternSched(reqs [][][]byte, schedule []int) (string, []schedEvent, []string) {
	p := &plenc.Plenc{}
	p.RegisterDefaultCodecs()
	cd, err := p.CodecForType(reflect.TypeOf(internHolder{}))
	if err != nil {
		return "builderr", nil, nil
	}
	ic, ok := cd.(*plenccodec.StructCodec).VerifFields()[0].Codec.(*plenccodec.InternedStringCodec)
	if !ok {
		return "bad-op not interned", nil, nil
	}
	results := make([][]string, len(reqs))
	var ws []func() string
	for i := range reqs {
		i := i
		ws = append(ws, func() string {
			var outs []string
			for _, d := range reqs[i] {
				buf := append(refTag(1, 2), lenPrefixed(d)...)
				var v internHolder
				if err := p.Unmarshal(buf, &v); err != nil {
					return "err"
				}
				for k := range buf {
					buf[k] = 0xAA
				}
				results[i] = append(results[i], v.S)
			}
			for _, r := range results[i] {
				outs = append(outs, hx([]byte(r)))
			}
			return strings.Join(outs, ",")
		})
	}
	prev := map[string]string{}
	var published []map[string]string // every table seen published, with its size at that time
	var publishedLen []int
	stepInvariant = func() string {
		tbl := ic.VerifTable()
		for i, old := range published {
			if len(old) != publishedLen[i] {
				return fmt.Sprintf("a published intern table was mutated in place (%d -> %d entries)", publishedLen[i], len(old))
			}
		}
		if tbl != nil && (len(published) == 0 || len(tbl) != publishedLen[len(published)-1] || len(published) < 4) {
			published = append(published, tbl)
			publishedLen = append(publishedLen, len(tbl))
			if len(published) > 64 {
				published, publishedLen = published[1:], publishedLen[1:]
			}
		}
		for k, v := range tbl {
			if k != v {
				return fmt.Sprintf("intern table maps %q to %q", k, v)
			}
		}
		for k := range prev {
			if _, ok := tbl[k]; !ok {
				return fmt.Sprintf("intern table lost the entry %q", k)
			}
		}
		prev = tbl
		return ""
	}
	res := runScheduled(ws, schedule)
	stepInvariant = nil
	schedLastTrace = traceString(res.trace)
	var keys []string
	for k := range ic.VerifTable() {
		keys = append(keys, hx([]byte(k)))
	}
	sort.Strings(keys)
	if len(res.panics) > 0 {
		return "PANIC " + strings.Join(res.panics, "; "), res.trace, keys
	}
	return strings.Join(res.results, " | "), res.trace, keys
}

// ---- C19 trace correspondence ---------------------------------------------------

// makeInternTraceOp runs the schedule once and returns the op carrying the
// recorded releases from the intern yield points.
func makeInternTraceOp(sched *Sexp) *Sexp {
	reqs, schedule, ok := parseInternReqs(sched)
	if !ok {
		return L(A("interntrace"))
	}
	_, trace, _ := runInternSched(reqs, schedule)
	evs := []*Sexp{A("events")}
	for _, e := range trace {
		if strings.HasPrefix(e.point, "intern.") {
			evs = append(evs, L(A(strconv.Itoa(e.tid)), A(strings.TrimPrefix(e.point, "intern."))))
		}
	}
	return L(A("interntrace"), sched.List[1], sched.List[2], L(evs...))
}

// execInternTrace: (interntrace (reqs…) (schedule…) (events…)): the events are
// the model's input; the implementation's line is what the real run under the
// same schedule ends with: the keys of the table and every goroutine's results.
func execInternTrace(s *Sexp) string {
	if len(s.List) != 4 {
		return "bad-op"
	}
	reqs, schedule, ok := parseInternReqs(s)
	if !ok {
		return "bad-op"
	}
	out, _, keys := runInternSched(reqs, schedule)
	if strings.HasPrefix(out, "PANIC") || strings.HasPrefix(out, "b") {
		return out
	}
	return "conforms keys=" + strings.Join(keys, ",") + " results=" + out
}
