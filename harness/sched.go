package main

import (
	"bytes"
	"fmt"
	"reflect"
	"runtime"
	"strconv"
	"strings"
	"sync"
	"time"

	"github.com/philpearl/plenc"
	"github.com/philpearl/plenc/verifhook"
)

// A deterministic scheduler over the yield points compiled into plenc with the
// verif tag: worker goroutines park at every instrumented shared access; the
// scheduler releases one at a time following a schedule (a list of worker ids),
// and records the trace of (worker, point, key).

type schedEvent struct {
	tid   int
	point string
	key   string
}

type sched struct {
	mu      sync.Mutex
	gids    map[int64]int // goroutine id -> worker id
	parked  map[int]chan struct{}
	where   map[int]schedEvent
	arrive  chan int
	done    map[int]bool
	trace   []schedEvent
	keyName map[interface{}]string
}

func goid() int64 {
	var buf [64]byte
	n := runtime.Stack(buf[:], false)
	f := bytes.Fields(buf[:n])
	id, _ := strconv.ParseInt(string(f[1]), 10, 64)
	return id
}

func (s *sched) nameKey(k interface{}) string {
	if t, ok := k.(reflect.Type); ok {
		if t.Name() != "" {
			return t.Name()
		}
		return t.String()
	}
	if n, ok := s.keyName[k]; ok {
		return n
	}
	n := fmt.Sprintf("k%d", len(s.keyName))
	s.keyName[k] = n
	return n
}

func (s *sched) yield(point string, key interface{}) {
	g := goid()
	s.mu.Lock()
	tid, ok := s.gids[g]
	if !ok {
		s.mu.Unlock()
		return // not a scheduled worker
	}
	ch := make(chan struct{})
	s.parked[tid] = ch
	s.where[tid] = schedEvent{tid, point, s.nameKey(key)}
	s.mu.Unlock()
	s.arrive <- tid
	<-ch
}

type schedResult struct {
	results []string // per worker
	trace   []schedEvent
	panics  []string
}

// runScheduled runs the workers under the schedule. schedule[i] = the worker to
// release at step i (if it is not parked, the lowest parked worker is released);
// when the schedule is exhausted, workers run lowest-id-first.
func runScheduled(workers []func() string, schedule []int) schedResult {
	s := &sched{gids: map[int64]int{}, parked: map[int]chan struct{}{}, where: map[int]schedEvent{},
		arrive: make(chan int, len(workers)*4), done: map[int]bool{}, keyName: map[interface{}]string{}}
	verifhook.Yield = s.yield
	defer func() { verifhook.Yield = nil }()
	res := schedResult{results: make([]string, len(workers))}
	var pm sync.Mutex
	finished := make(chan int, len(workers))
	for i, w := range workers {
		i, w := i, w
		ready := make(chan struct{})
		go func() {
			s.mu.Lock()
			s.gids[goid()] = i
			s.mu.Unlock()
			close(ready)
			s.yield("start", i)
			defer func() {
				if r := recover(); r != nil {
					pm.Lock()
					res.panics = append(res.panics, fmt.Sprintf("worker %d: %v", i, r))
					pm.Unlock()
					res.results[i] = "panic"
				}
				finished <- i
			}()
			res.results[i] = w()
		}()
		<-ready
	}
	// wait until every worker is parked at "start"
	for n := 0; n < len(workers); n++ {
		<-s.arrive
	}
	running := -1
	step := 0
	ndone := 0
	// settle waits for the released worker to park again, finish, or block (timeout)
	settle := func() {
		if running < 0 {
			return
		}
		select {
		case <-s.arrive:
		case id := <-finished:
			s.done[id] = true
			ndone++
		case <-time.After(20 * time.Millisecond):
			// blocked on a mutex held by a parked worker: leave it, schedule someone else
		}
		running = -1
	}
	for ndone < len(workers) {
		s.mu.Lock()
		var cands []int
		for t := 0; t < len(workers); t++ {
			if _, ok := s.parked[t]; ok {
				cands = append(cands, t)
			}
		}
		s.mu.Unlock()
		if len(cands) == 0 {
			// everything is running or blocked: wait for an arrival or a completion
			select {
			case <-s.arrive:
			case id := <-finished:
				s.done[id] = true
				ndone++
			case <-time.After(2 * time.Second):
				res.panics = append(res.panics, "deadlock: no worker can make progress")
				return res
			}
			continue
		}
		pick := cands[0]
		if step < len(schedule) {
			for _, c := range cands {
				if c == schedule[step] {
					pick = c
				}
			}
		}
		step++
		s.mu.Lock()
		ch := s.parked[pick]
		delete(s.parked, pick)
		res.trace = append(res.trace, s.where[pick])
		s.mu.Unlock()
		running = pick
		close(ch)
		settle()
	}
	return res
}

func traceString(tr []schedEvent) string {
	var parts []string
	for _, e := range tr {
		parts = append(parts, fmt.Sprintf("%d:%s:%s", e.tid, e.point, e.key))
	}
	return strings.Join(parts, " ")
}

// ---- C07 family: concurrent first use of type families ---------------------------

type schedFamily struct {
	name  string
	types []reflect.Type
}

var schedFamilies = []schedFamily{
	{"mutual", []reflect.Type{reflect.TypeOf(MutA{}), reflect.TypeOf(MutB{})}},
	{"rec", []reflect.Type{reflect.TypeOf(Rec{}), reflect.TypeOf([]Rec{})}},
	{"nested", []reflect.Type{reflect.TypeOf(Outer{}), reflect.TypeOf(Inner{})}},
	{"recmap", []reflect.Type{reflect.TypeOf(RecMap{}), reflect.TypeOf(&RecMap{})}},
}

// workerFor: first use of a type on a fresh instance: build the codec, marshal a
// fixed value of it, unmarshal it again; the result string is the canonical outcome.
func workerFor(p *plenc.Plenc, rt reflect.Type, seed uint64) func() string {
	return func() string {
		td := FromRT(rt, 3)
		g := &Gen{r: NewRNG(seed), stats: map[string]int{}}
		b := 12
		v := g.Value(td, &b)
		pv := reflect.New(rt)
		if err := v.ToReflect(pv.Elem(), td); err != nil {
			return "bad " + err.Error()
		}
		if _, err := p.CodecForType(rt); err != nil {
			return "builderr"
		}
		data, err := p.Marshal(nil, pv.Interface())
		if err != nil {
			return "err"
		}
		out := reflect.New(rt)
		if err := p.Unmarshal(data, out.Interface()); err != nil {
			return "err"
		}
		if multiEntryMaps(v) {
			// bytes are fixed only up to map iteration order
			return FromReflect(out.Elem(), td).String()
		}
		return hx(data) + " " + FromReflect(out.Elem(), td).String()
	}
}

// execSched: (sched family nthreads seed (schedule...)) → results and trace
func execSched(s *Sexp) string {
	fam := s.List[1].Atom
	nthreads, _ := strconv.Atoi(s.List[2].Atom)
	seed, _ := strconv.ParseUint(s.List[3].Atom, 10, 64)
	var schedule []int
	for _, it := range s.List[4].List {
		n, _ := strconv.Atoi(it.Atom)
		schedule = append(schedule, n)
	}
	var f *schedFamily
	for i := range schedFamilies {
		if schedFamilies[i].name == fam {
			f = &schedFamilies[i]
		}
	}
	if f == nil {
		return "bad-op"
	}
	mk := func() (*plenc.Plenc, []func() string) {
		p := &plenc.Plenc{}
		p.RegisterDefaultCodecs()
		var ws []func() string
		for i := 0; i < nthreads; i++ {
			ws = append(ws, workerFor(p, f.types[i%len(f.types)], seed+uint64(i%len(f.types))))
		}
		return p, ws
	}
	// sequential reference: each worker alone on its own fresh instance
	var want []string
	for i := 0; i < nthreads; i++ {
		_, ws := mk()
		want = append(want, guard(ws[i]))
	}
	_, ws := mk()
	res := runScheduled(ws, schedule)
	ok := "same"
	for i := range want {
		if res.results[i] != want[i] {
			ok = fmt.Sprintf("DIFF worker %d: got %s want %s", i, res.results[i], want[i])
			break
		}
	}
	if len(res.panics) > 0 {
		ok = "PANIC " + strings.Join(res.panics, "; ")
	}
	schedLastTrace = traceString(res.trace)
	return ok
}

var schedLastTrace string
