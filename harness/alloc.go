package main

import (
	"reflect"
	"runtime"
)

// Allocation oracle for C04: "never allocates more memory than a fixed multiple
// (depending only on the target type) of the input length".
//
// The bound is allocBase + allocFactor * M(T) * (len(input)+1), where M(T) is the
// largest in-memory size of any node of the target type (element, pointee, map
// key + value + per-entry overhead). Every byte of input can cause at most one
// element / pointee / map entry of the enclosing container to come into being;
// allocFactor covers append's amortised growth (<= 2x live + 2x garbage), map
// bucket overhead and pooled scratch values.

const (
	allocBase   = 8192
	allocFactor = 24
)

var (
	lastDecValid bool
	lastDecAlloc uint64
	lastDecBound uint64
	maxAllocPct  uint64 // largest alloc/bound seen, in percent (evidence)
	allocSizes   = map[reflect.Type]uintptr{}
)

func totalAlloc() uint64 {
	var ms runtime.MemStats
	runtime.ReadMemStats(&ms)
	return ms.TotalAlloc
}

func maxNodeSize(rt reflect.Type) uintptr {
	if s, ok := allocSizes[rt]; ok {
		return s
	}
	seen := map[reflect.Type]bool{}
	var m uintptr = 16
	var walk func(t reflect.Type)
	walk = func(t reflect.Type) {
		if seen[t] {
			return
		}
		seen[t] = true
		if s := t.Size() + 16; s > m {
			m = s
		}
		switch t.Kind() {
		case reflect.Ptr, reflect.Slice:
			walk(t.Elem())
		case reflect.Map:
			if s := t.Key().Size() + t.Elem().Size() + 32; s > m {
				m = s
			}
			walk(t.Key())
			walk(t.Elem())
		case reflect.Struct:
			for i := 0; i < t.NumField(); i++ {
				walk(t.Field(i).Type)
			}
		}
	}
	walk(rt)
	allocSizes[rt] = m
	return m
}

func allocBound(rt reflect.Type, n int) uint64 {
	return allocBase + allocFactor*uint64(maxNodeSize(rt))*uint64(n+1)
}

// measureDecode runs one decode and records the bytes allocated during the call.
// A measurement slightly over the bound (by less than 64 KiB: background runtime
// activity can allocate during the window) is repeated once on a fresh target and
// the smaller value counts; a large excess is never re-measured, because a second
// decode meets warm caches (intern tables) and would hide it.
func measureDecode(c *opCtx, data []byte, pv reflect.Value, prior *Val) error {
	a0 := totalAlloc()
	err := c.unmarshalPtr(data, pv)
	used := totalAlloc() - a0
	bound := allocBound(c.rt, len(data))
	if used > bound && used-bound < 64<<10 {
		if pv2, e2 := c.newValue(prior); e2 == nil {
			a0 = totalAlloc()
			_ = c.unmarshalPtr(data, pv2)
			if u2 := totalAlloc() - a0; u2 < used {
				used = u2
			}
		}
	}
	lastDecValid, lastDecAlloc, lastDecBound = true, used, bound
	if pct := used * 100 / bound; pct > maxAllocPct {
		maxAllocPct = pct
	}
	return err
}
