package main

import (
	"fmt"
	"reflect"
	"sort"
	"strconv"
	"strings"

	"github.com/philpearl/plenc"
	"github.com/philpearl/plenc/verifhook"
)

// regtrace: trace correspondence for C07. The real run's sequence of accesses to
// the SHARED registry (who loaded / stored which (type, tag) key, in which order)
// is recorded by the scheduler and replayed on the Lean transition system
// Registry (lean/Plenc/RegistryTrace.lean `conform`); C07.trace_replay_reach
// says a trace the model follows is an execution of the proved protocol.
//
// The type graph handed to the model is computed HERE from the Go types alone,
// as an independent statement of which lookups building a codec makes:
//   pointer            -> element under the same tag
//   slice              -> element under the empty tag
//   map                -> key, then value, both under the empty tag
//   struct             -> each exported field not tagged "-", in order, under
//                         the field's tag option ("intern" is not a registry tag)
//   defined basic type -> the predeclared type of its kind under the same tag
//                         (modelled as a unary wrapper: same lookups)
//   unsupported kind   -> fails right after its own lookup
// Keys registered by RegisterDefaultCodecs are leaves that goroutine 0 of the
// model requests before the recorded part starts.

type rtKey struct {
	t   reflect.Type
	tag string
}

type rtGraph struct {
	nodes []string
	ids   map[rtKey]int
	pre   []int
	preK  map[rtKey]bool
	unsup string
}

var basicOfKind = map[reflect.Kind]reflect.Type{
	reflect.Bool: reflect.TypeOf(false), reflect.Int: reflect.TypeOf(int(0)), reflect.Int8: reflect.TypeOf(int8(0)),
	reflect.Int16: reflect.TypeOf(int16(0)), reflect.Int32: reflect.TypeOf(int32(0)), reflect.Int64: reflect.TypeOf(int64(0)),
	reflect.Uint: reflect.TypeOf(uint(0)), reflect.Uint8: reflect.TypeOf(uint8(0)), reflect.Uint16: reflect.TypeOf(uint16(0)),
	reflect.Uint32: reflect.TypeOf(uint32(0)), reflect.Uint64: reflect.TypeOf(uint64(0)),
	reflect.Float32: reflect.TypeOf(float32(0)), reflect.Float64: reflect.TypeOf(float64(0)), reflect.String: reflect.TypeOf(""),
}

func (g *rtGraph) node(t reflect.Type, tag string) int {
	k := rtKey{t, tag}
	if id, ok := g.ids[k]; ok {
		return id
	}
	id := len(g.nodes)
	g.ids[k] = id
	g.nodes = append(g.nodes, "")
	set := func(s string) int { g.nodes[id] = s; return id }
	if g.preK[k] {
		g.pre = append(g.pre, id)
		return set("(basic)")
	}
	switch t.Kind() {
	case reflect.Ptr:
		if t.Elem().Kind() == reflect.Map {
			return set("(bad)")
		}
		return set(fmt.Sprintf("(ptr %d)", g.node(t.Elem(), tag)))
	case reflect.Slice:
		if t.Elem().Kind() == reflect.Map {
			return set("(bad)")
		}
		return set(fmt.Sprintf("(slice %d)", g.node(t.Elem(), "")))
	case reflect.Map:
		kn := g.node(t.Key(), "")
		return set(fmt.Sprintf("(map %d %d)", kn, g.node(t.Elem(), "")))
	case reflect.Struct:
		if tag != "" {
			g.unsup = "struct under a tag option"
		}
		parts := []string{"struct"}
		for i := 0; i < t.NumField(); i++ {
			sf := t.Field(i)
			if !sf.IsExported() {
				continue
			}
			pt := sf.Tag.Get("plenc")
			if pt == "-" {
				continue
			}
			if pt == "" {
				g.unsup = "a build error that is raised without a registry access"
				break
			}
			opt := ""
			if c := strings.IndexByte(pt, ','); c >= 0 {
				opt = pt[c+1:]
			}
			if opt == "intern" {
				opt = ""
			}
			parts = append(parts, strconv.Itoa(g.node(sf.Type, opt)))
		}
		return set("(" + strings.Join(parts, " ") + ")")
	default:
		if b, ok := basicOfKind[t.Kind()]; ok && b != t {
			return set(fmt.Sprintf("(ptr %d)", g.node(b, tag)))
		}
		return set("(bad)")
	}
}

type regFamily struct {
	name  string
	types []reflect.Type
}

var regFamilies = []regFamily{
	{"mutual", []reflect.Type{reflect.TypeOf(MutA{}), reflect.TypeOf(MutB{}), reflect.TypeOf(&MutA{})}},
	{"rec", []reflect.Type{reflect.TypeOf(Rec{}), reflect.TypeOf([]Rec{}), reflect.TypeOf(&Rec{})}},
	{"nested", []reflect.Type{reflect.TypeOf(Outer{}), reflect.TypeOf(Inner{}), reflect.TypeOf([]Inner{})}},
	{"recmap", []reflect.Type{reflect.TypeOf(RecMap{}), reflect.TypeOf(&RecMap{}), reflect.TypeOf(map[string]RecMap{})}},
	{"badkind", []reflect.Type{reflect.TypeOf(BadKindRec{}), reflect.TypeOf(&BadKindRec{}), reflect.TypeOf([]BadKindRec{})}},
	{"badvia", []reflect.Type{reflect.TypeOf(GoodViaBadKind{}), reflect.TypeOf(BadKindHolder{}), reflect.TypeOf(BadKindRec{})}},
	{"mixed", []reflect.Type{reflect.TypeOf(MutA{}), reflect.TypeOf(BadKindHolder{}), reflect.TypeOf(Outer{})}},
}

// runRegTrace runs nthreads workers (worker i: CodecForType, Marshal of the zero
// value, CodecForType again, all on family type i) on one fresh instance under
// the schedule and returns the recorded events, the registry keys published at
// the end (beyond the defaults) and the per-worker outcomes, all in graph ids.
func runRegTrace(fam *regFamily, nthreads int, schedule []int) (g *rtGraph, reqs [][]int, events []string, keys []int, results []string, panics []string) {
	p := &plenc.Plenc{}
	p.RegisterDefaultCodecs()
	g = &rtGraph{ids: map[rtKey]int{}, preK: map[rtKey]bool{}}
	for _, k := range p.VerifRegistryKeys() {
		g.preK[rtKey{k.Typ.(reflect.Type), k.Tag}] = true
	}
	var ws []func() string
	for i := 0; i < nthreads; i++ {
		rt := fam.types[i%len(fam.types)]
		id := g.node(rt, "")
		reqs = append(reqs, []int{id, id, id})
		ws = append(ws, func() string {
			oc := func(err error) string {
				if err != nil {
					return "err"
				}
				return "ok"
			}
			_, e1 := p.CodecForType(rt)
			_, e2 := p.Marshal(nil, reflect.New(rt).Interface())
			_, e3 := p.CodecForType(rt)
			return oc(e1) + "," + oc(e2) + "," + oc(e3)
		})
	}
	stepInvariant = func() string { return registryComplete(p) }
	res := runScheduled(ws, schedule)
	stepInvariant = nil
	// independent of the model: whatever is published must be a codec for a type that can be built
	for _, k := range p.VerifRegistryKeys() {
		rk := rtKey{k.Typ.(reflect.Type), k.Tag}
		if g.preK[rk] {
			continue
		}
		fresh := &plenc.Plenc{}
		fresh.RegisterDefaultCodecs()
		if _, err := fresh.CodecForTypeWithTag(rk.t, rk.tag); err != nil {
			res.panics = append(res.panics, fmt.Sprintf("the shared registry holds a codec for %s although building one fails (%v)", rk.t, err))
		}
	}
	if m := registryComplete(p); m != "" {
		res.panics = append(res.panics, "invariant violated at the end: "+m)
	}
	for _, e := range res.trace {
		var kind string
		switch e.point {
		case "registry.load":
			kind = "L"
		case "registry.storeorswap":
			kind = "S"
		default:
			continue
		}
		id := 9999 // a key the graph does not contain: the model cannot follow
		if tt, ok := e.raw.(verifhook.TypeTag); ok {
			if n, ok := g.ids[rtKey{tt.Typ.(reflect.Type), tt.Tag}]; ok {
				id = n
			}
		}
		events = append(events, fmt.Sprintf("(%d %s %d)", e.tid+1, kind, id))
	}
	for _, k := range p.VerifRegistryKeys() {
		rk := rtKey{k.Typ.(reflect.Type), k.Tag}
		if g.preK[rk] {
			continue
		}
		if id, ok := g.ids[rk]; ok {
			keys = append(keys, id)
		} else {
			keys = append(keys, 9999)
		}
	}
	sort.Ints(keys)
	return g, reqs, events, keys, res.results, res.panics
}

func regFamilyByName(n string) *regFamily {
	for i := range regFamilies {
		if regFamilies[i].name == n {
			return &regFamilies[i]
		}
	}
	return nil
}

func parseSchedule(s *Sexp) []int {
	var out []int
	for _, it := range s.List {
		n, _ := strconv.Atoi(it.Atom)
		out = append(out, n)
	}
	return out
}

func regResultLine(keys []int, results []string, panics []string) string {
	if len(panics) > 0 {
		return "PANIC " + strings.Join(panics, "; ")
	}
	ks := make([]string, len(keys))
	for i, k := range keys {
		ks[i] = strconv.Itoa(k)
	}
	return fmt.Sprintf("conforms keys=[%s] results=[%s]", strings.Join(ks, ", "), strings.Join(results, ", "))
}

// makeRegTraceOp runs the schedule once and returns the op carrying the recorded trace.
func makeRegTraceOp(fam string, nthreads int, schedule []int) *Sexp {
	f := regFamilyByName(fam)
	g, reqs, events, _, _, _ := runRegTrace(f, nthreads, schedule)
	var sch []*Sexp
	for _, t := range schedule {
		sch = append(sch, A(strconv.Itoa(t)))
	}
	hdr := L(A("run"), A(fam), A(strconv.Itoa(nthreads)), L(sch...))
	graph := []*Sexp{A("graph")}
	for _, n := range g.nodes {
		sx, _ := parseSexp(n)
		graph = append(graph, sx)
	}
	pre := []*Sexp{A("pre")}
	for _, id := range g.pre {
		pre = append(pre, A(strconv.Itoa(id)))
	}
	rq := []*Sexp{A("reqs")}
	for _, r := range reqs {
		var ids []*Sexp
		for _, id := range r {
			ids = append(ids, A(strconv.Itoa(id)))
		}
		rq = append(rq, L(ids...))
	}
	evs := []*Sexp{A("events")}
	for _, e := range events {
		sx, _ := parseSexp(e)
		evs = append(evs, sx)
	}
	return L(A("regtrace"), hdr, L(graph...), L(pre...), L(rq...), L(evs...))
}

// execRegTrace: (regtrace (run fam n (schedule)) (graph…) (pre…) (reqs…) (events…)).
// The recorded events are the model's input; the implementation's line is what
// the real run (repeated here under the same schedule) ends with: published
// keys and outcomes. publish() ranges over a Go map, so a repeated run may hand
// the pending codecs over in another order; keys and outcomes do not depend on it.
func execRegTrace(s *Sexp) string {
	if len(s.List) != 6 || len(s.List[1].List) != 4 {
		return "bad-op"
	}
	h := s.List[1].List
	f := regFamilyByName(h[1].Atom)
	n, err := strconv.Atoi(h[2].Atom)
	if f == nil || err != nil || n < 1 || n > 4 {
		return "bad-op"
	}
	g, _, _, keys, results, panics := runRegTrace(f, n, parseSchedule(h[3]))
	if g.unsup != "" {
		return "bad-op family outside the trace model: " + g.unsup
	}
	return regResultLine(keys, results, panics)
}

func oracleRegTrace(op *Sexp, res string) []string {
	if !strings.HasPrefix(res, "conforms ") {
		return []string{"concurrent codec construction: " + res}
	}
	return nil
}
