package main

import (
	"fmt"
	"reflect"
	"strings"

	"github.com/philpearl/plenc"
)

func init() { propRunners["C17"] = runC17 }

// (world OP…): a script over several Plenc instances. Instance 0 is the
// package-level default, used only through the package-level functions and never
// registered on (that would leak into every other op of the run); instances
// 1.. are created by (new FLAGS).
//
//	(new FLAGS) (reg I xTYPENAME xTAG codec) (null I) (enc I T V) (cft I T xTAG)
func execWorld(s *Sexp) string {
	return guard(func() string {
		insts := []*plenc.Plenc{nil}
		var outs []string
		for _, op := range s.List[1:] {
			arg := func(i int) string { return op.List[i].Atom }
			idx := func() int { n := 0; fmt.Sscanf(arg(1), "%d", &n); return n }
			switch op.head() {
			case "new":
				fl := arg(1)
				p := &plenc.Plenc{ProtoCompatibleTime: fl[0] == '1', ProtoCompatibleArrays: fl[1] == '1'}
				p.RegisterDefaultCodecs()
				insts = append(insts, p)
				outs = append(outs, fmt.Sprint(len(insts)-1))
			case "reg":
				i := idx()
				n, _ := unhx(arg(2))
				tg, _ := unhx(arg(3))
				rt, ok := regTypeByName(string(n))
				c, ok2 := markerCodecs[arg(4)]
				if i < 0 || i >= len(insts) || !ok || !ok2 {
					return "bad-op reg"
				}
				if i == 0 {
					// the package-level default: only ever under the private tag "c17x"
					// (nothing else in the harness uses it; it cannot be undone)
					if string(tg) != "c17x" {
						return "bad-op reg on default"
					}
					plenc.RegisterCodecWithTag(rt, string(tg), c)
				} else {
					insts[i].RegisterCodecWithTag(rt, string(tg), c)
				}
				outs = append(outs, "-")
			case "null":
				i := idx()
				if i <= 0 || i >= len(insts) {
					return "bad-op null"
				}
				plencnullAdd(insts[i])
				outs = append(outs, "-")
			case "enc":
				i := idx()
				td, err := parseTyDef(op.List[2])
				if err != nil {
					return "bad-op " + err.Error()
				}
				v, err := parseVal(op.List[3])
				if err != nil {
					return "bad-op " + err.Error()
				}
				rt, err := td.RT()
				if err != nil {
					return "bad-op " + err.Error()
				}
				pv := reflect.New(rt)
				if err := v.ToReflect(pv.Elem(), td); err != nil {
					return "bad-op " + err.Error()
				}
				var data []byte
				if i == 0 {
					data, err = plenc.Marshal(nil, pv.Interface())
				} else {
					data, err = insts[i].Marshal(nil, pv.Interface())
				}
				if err != nil {
					outs = append(outs, "err")
					continue
				}
				// and back, through the same instance
				back := reflect.New(rt)
				if i == 0 {
					err = plenc.Unmarshal(data, back.Interface())
				} else {
					err = insts[i].Unmarshal(data, back.Interface())
				}
				if err != nil {
					outs = append(outs, hx(data)+" err")
					continue
				}
				outs = append(outs, hx(data)+" "+FromReflect(back.Elem(), td).String())
			case "cft":
				i := idx()
				td, err := parseTyDef(op.List[2])
				if err != nil {
					return "bad-op " + err.Error()
				}
				tg, _ := unhx(arg(3))
				rt, err := td.RT()
				if err != nil {
					return "bad-op " + err.Error()
				}
				var c interface{}
				var cerr error
				if i == 0 {
					c, cerr = plenc.CodecForTypeWithTag(rt, string(tg))
				} else {
					c, cerr = insts[i].CodecForTypeWithTag(rt, string(tg))
				}
				if cerr != nil {
					outs = append(outs, "err")
					continue
				}
				outs = append(outs, renderAny(c))
			default:
				return "bad-op " + op.head()
			}
		}
		return strings.Join(outs, " | ")
	})
}

// regs: (typeName, tag, marker codec) combinations that are memory-compatible with the type
var worldRegs = [][3]string{
	// (type, tag, marker). Markers are memory-compatible with the type and keep its
	// signedness: for signed types the flat codec changes the bytes of negative
	// values; for unsigned types it changes only the codec identity (seen by cft).
	{"MyInt", "", "flat64"}, {"MyInt", "z", "flat64"}, {"MyInt8", "", "flat8"}, {"MyI16", "", "flat16"}, {"MyI32", "w", "flat32"},
	{"MyI64", "", "flat64"}, {"int32", "q", "flat32"}, {"int16", "", "flat16"}, {"int8", "", "flat8"},
	// tag names are everything after the FIRST comma: they may contain commas themselves
	{"MyInt", "z,flat", "flat64"}, {"int32", "a,b,c", "flat32"}, {"MyI64", ",", "flat64"},
}

func worldNT(name string) *TyDef {
	if _, ok := basicTypes[name]; ok {
		return B(name)
	}
	return named(name)
}

// a struct using the registered type in every position
func worldType(g *Gen, name, tag string) *TyDef {
	nt := worldNT(name)
	ftag := func(i int) string {
		if tag != "" {
			return fmt.Sprintf("%d,%s", i, tag)
		}
		return fmt.Sprint(i)
	}
	fs := []*FieldDef{
		{Name: "V", Exported: true, Plenc: ftag(1), T: nt},
		{Name: "P", Exported: true, Plenc: ftag(2), T: Ptr(nt)},
		{Name: "S", Exported: true, Plenc: "3", T: Slice(nt)},
		{Name: "MK", Exported: true, Plenc: "4", T: Map(nt, B("str"))},
		{Name: "MV", Exported: true, Plenc: "5", T: Map(B("str"), nt)},
		{Name: "Plain", Exported: true, Plenc: "6", T: B("int")},
		{Name: "N", Exported: true, Plenc: "7", T: Struct(&FieldDef{Name: "X", Exported: true, Plenc: ftag(1), T: nt})},
	}
	return Struct(fs...)
}

// TagRec: a self-referential struct whose self pointer carries a tag option
type TagRec struct {
	V    int     `plenc:"1"`
	Next *TagRec `plenc:"2,short"`
	S    string  `plenc:"3,c17x"`
}

func init() { regStatic(TagRec{}) }

func runC17(r *Runner, g *Gen, tier string) string {
	// a registration on the package-level default under a private tag must stay there
	strT := Struct(&FieldDef{Name: "S", Exported: true, Plenc: "1,c17x", T: B("str")},
		&FieldDef{Name: "N", Exported: true, Plenc: "2,c17x", T: named("MyStr")})
	for k := 0; k < 6; k++ {
		items := []*Sexp{A("world"), L(A("new"), A(cfgs[k%4])), L(A("new"), A(cfgs[(k+1)%4])),
			L(A("reg"), A("0"), A(hxs("string")), A(hxs("c17x")), A("str"))}
		if k%2 == 1 {
			items = append(items, L(A("reg"), A("2"), A(hxs("string")), A(hxs("c17x")), A("str")))
		}
		sv := &Val{K: "r", L: []*Val{{K: "s", Data: []byte("abc")}, {K: "s", Data: []byte("de")}}}
		for _, inst := range []string{"1", "0", "2", "1"} {
			items = append(items, L(A("cft"), A(inst), strT.Sexp(), A(hxs(""))))
			items = append(items, L(A("cft"), A(inst), B("str").Sexp(), A(hxs("c17x"))))
			items = append(items, L(A("enc"), A(inst), strT.Sexp(), sv.Sexp()))
		}
		r.Do(L(items...), true, "world.default-reg")
	}
	// a codec registered for (T, tag) where T refers to itself through a tagged pointer
	tagRec := FromRT(staticTypes["TagRec"], 7)
	for k := 0; k < 6; k++ {
		items := []*Sexp{A("world"), L(A("new"), A(cfgs[k%4])), L(A("new"), A("00")),
			L(A("reg"), A("0"), A(hxs("string")), A(hxs("c17x")), A("str")),
			L(A("reg"), A("1"), A(hxs("string")), A(hxs("c17x")), A("str")),
			L(A("reg"), A("2"), A(hxs("string")), A(hxs("c17x")), A("str")),
			L(A("reg"), A("1"), A(hxs("TagRec")), A(hxs("short")), A("int64"))}
		order := []string{"1", "2", "0"}
		if k%2 == 1 {
			order = []string{"2", "1", "0", "1"}
		}
		for _, inst := range order {
			items = append(items, L(A("cft"), A(inst), tagRec.Sexp(), A(hxs(""))))
		}
		r.Do(L(items...), true, "world.tagged-self-reference")
	}
	for _, k := range []string{"struct", "map", "arr"} {
		r.Do(L(A("latereg"), A(k)), true, "latereg")
	}
	r.Do(L(A("regintern")), true, "regintern")
	r.Do(L(A("regselfhist")), true, "regselfhist")
	r.Do(L(A("pkgreg")), true, "pkgreg")
	n := scale(tier, 1200, 150000)
	for i := 0; i < n; i++ {
		items := []*Sexp{A("world")}
		ninst := 2 + g.r.Intn(2)
		for k := 0; k < ninst; k++ {
			items = append(items, L(A("new"), A(cfgs[g.r.Intn(4)])))
		}
		reg := worldRegs[g.r.Intn(len(worldRegs))]
		target := 1 + g.r.Intn(ninst)
		// registrations first (before any use of the instance)
		items = append(items, L(A("reg"), A(fmt.Sprint(target)), A(hxs(reg[0])), A(hxs(reg[1])), A(reg[2])))
		if g.r.P(30) {
			other := worldRegs[g.r.Intn(len(worldRegs))]
			items = append(items, L(A("reg"), A(fmt.Sprint(1+g.r.Intn(ninst))), A(hxs(other[0])), A(hxs(other[1])), A(other[2])))
		}
		t := worldType(g, reg[0], reg[1])
		b := 30
		v := g.Value(t, &b)
		for len(v.String()) > 2000 || multiEntryMaps(v) {
			b = 12
			v = g.Value(t, &b)
		}
		// the same value through every instance and the package-level functions, in random order, twice
		order := g.r.Intn(2)
		for rep := 0; rep < 2; rep++ {
			for k := 0; k <= ninst; k++ {
				inst := k
				if order == 1 {
					inst = ninst - k
				}
				items = append(items, L(A("enc"), A(fmt.Sprint(inst)), t.Sexp(), v.Sexp()))
			}
		}
		nt := worldNT(reg[0])
		items = append(items, L(A("cft"), A(fmt.Sprint(target)), nt.Sexp(), A(hxs(reg[1]))))
		items = append(items, L(A("cft"), A("0"), nt.Sexp(), A(hxs(""))))
		r.Do(L(items...), true, "world")
	}
	return "scripts over 2-3 fresh instances with differing options plus the package-level default: marker codecs (memory-compatible integer codecs with a distinguishable encoding) registered on one instance for a named or basic type, optionally under a tag name, before first use; the same value of a struct using that type as value, pointer target, slice element, map key, map value and nested field is then marshalled and unmarshalled through every instance and through the package-level functions, twice, in varying order; compared with the model: every instance's bytes and decoded value, and which codec CodecForTypeWithTag returns; oracle: the registered instance's bytes differ from the others exactly as the marker predicts and no instance's output changes between the two passes"
}

func oracleWorld(op *Sexp, res string) []string {
	// stability across the two passes: each instance's first and second outputs are equal
	parts := strings.Split(res, " | ")
	var encs []string
	var insts []string
	j := 0
	for _, it := range op.List[1:] {
		if j >= len(parts) {
			break
		}
		if it.head() == "enc" {
			encs = append(encs, parts[j])
			insts = append(insts, it.List[1].Atom)
		}
		j++
	}
	seen := map[string]string{}
	var fails []string
	fails = append(fails, worldExpect(op, parts)...)
	for i, inst := range insts {
		if prev, ok := seen[inst]; ok {
			if prev != encs[i] {
				fails = append(fails, fmt.Sprintf("instance %s gave different results for the same value: %s then %s", inst, prev, encs[i]))
			}
		} else {
			seen[inst] = encs[i]
		}
	}
	return fails
}

// worldExpect: what each (enc I T V) of a script must produce, from the script
// alone: instance I's options and ITS OWN registrations decide the bytes; a tag
// option that names no codec on that instance is an error; the value comes back
// as written. Registrations on other instances, and on the package-level default
// under its private tag, play no part.
func worldExpect(op *Sexp, parts []string) []string {
	type inst struct {
		flags  string
		custom map[string]bool
	}
	insts := []*inst{{flags: "00", custom: map[string]bool{}}}
	var fails []string
	for j, it := range op.List[1:] {
		if j >= len(parts) {
			break
		}
		switch it.head() {
		case "new":
			insts = append(insts, &inst{flags: it.List[1].Atom, custom: map[string]bool{}})
		case "reg":
			var i int
			fmt.Sscanf(it.List[1].Atom, "%d", &i)
			n, _ := unhx(it.List[2].Atom)
			tg, _ := unhx(it.List[3].Atom)
			if i >= 0 && i < len(insts) {
				if m := it.List[4].Atom; !strings.HasPrefix(m, "flat") && m != "str" {
					return fails // scripted cases with memory-incompatible markers: model comparison only
				}
				insts[i].custom[string(n)+"|"+string(tg)] = true
			}
		case "null":
			return fails
		case "enc":
			var i int
			fmt.Sscanf(it.List[1].Atom, "%d", &i)
			td, e1 := parseTyDef(it.List[2])
			v, e2 := parseVal(it.List[3])
			if e1 != nil || e2 != nil || i < 0 || i >= len(insts) || multiEntryMaps(v) {
				continue
			}
			in := insts[i]
			want := "err"
			if worldBuildable(td, "", in.custom) {
				e := refEnc{protoTime: in.flags[0] == '1', protoArrays: in.flags[1] == '1', custom: in.custom}
				want = hx(e.top(td, v, "")) + " " + normPos(td, v, false).String()
			}
			if parts[j] != want {
				fails = append(fails, fmt.Sprintf("instance %d (options %s, own registrations %v): got %s want %s", i, in.flags, keysOf(in.custom), parts[j], want))
			}
		}
	}
	return fails
}

func keysOf(m map[string]bool) []string {
	var out []string
	for k := range m {
		out = append(out, k)
	}
	return out
}

// worldBuildable: every tag option in the definition names a codec on this instance.
func worldBuildable(t *TyDef, opt string, custom map[string]bool) bool {
	switch t.K {
	case "named":
		if custom[t.Name+"|"+opt] {
			return true
		}
		return worldBuildable(t.Elem, opt, custom)
	case "ptr":
		return worldBuildable(t.Elem, opt, custom)
	case "slice":
		if t.isBytes() {
			return true
		}
		return worldBuildable(t.Elem, "", custom)
	case "map":
		return worldBuildable(t.Key, "", custom) && worldBuildable(t.Elem, "", custom)
	case "struct":
		for _, f := range t.Fields {
			if !fieldEncoded(f) {
				continue
			}
			_, fopt := splitTag(f.Plenc)
			if fopt == "intern" {
				fopt = ""
			}
			if !worldBuildable(f.T, fopt, custom) {
				return false
			}
		}
		return true
	}
	if custom[goBasicName(t.K)+"|"+opt] {
		return true
	}
	return basicOK(t.K, opt)
}

func goBasicName(k string) string {
	switch k {
	case "str":
		return "string"
	case "f32":
		return "float32"
	case "f64":
		return "float64"
	}
	return k
}
