package main

// project: the value of type S as seen by a decoder for S' (C03): fields are
// matched by plenc index, never by name or position; a field of S' that S does
// not have is absent from the data (its zero value stands for "omitted"); a
// field of S that S' does not have is skipped. Recursively through pointers,
// slices, map values and nested structs.
func project(t1, t2 *TyDef, v *Val) *Val {
	t1, t2 = t1.under(), t2.under()
	if t1.K != t2.K {
		return v
	}
	switch t1.K {
	case "ptr":
		if v.P == nil {
			return v
		}
		return &Val{K: "p", P: project(t1.Elem, t2.Elem, v.P)}
	case "slice":
		if t1.isBytes() || v.K != "l" {
			return v
		}
		out := &Val{K: "l"}
		for _, e := range v.L {
			out.L = append(out.L, project(t1.Elem, t2.Elem, e))
		}
		return out
	case "map":
		if v.K != "m" {
			return v
		}
		out := &Val{K: "m"}
		for _, e := range v.M {
			out.M = append(out.M, [2]*Val{e[0], project(t1.Elem, t2.Elem, e[1])})
		}
		return out
	case "struct":
		byIdx := map[int]int{} // plenc index -> position among S's encoded fields
		types := map[int]*TyDef{}
		j := 0
		for _, f := range t1.Fields {
			if !fieldEncoded(f) {
				continue
			}
			idx, _ := splitTag(f.Plenc)
			byIdx[idx] = j
			types[idx] = f.T
			j++
		}
		out := &Val{K: "r"}
		for _, f := range t2.Fields {
			if !fieldEncoded(f) {
				continue
			}
			idx, _ := splitTag(f.Plenc)
			if pos, ok := byIdx[idx]; ok && pos < len(v.L) {
				out.L = append(out.L, project(types[idx], f.T, v.L[pos]))
			} else {
				out.L = append(out.L, zeroVal(f.T))
			}
		}
		return out
	}
	return v
}
