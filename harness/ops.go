package main

import (
	"bytes"
	"encoding/json"
	"errors"
	"fmt"
	"os"
	"os/exec"
	"reflect"
	"runtime"
	"strconv"
	"strings"
	"sync"
	"time"
	"unsafe"

	"github.com/philpearl/plenc"
	plencnull "github.com/philpearl/plenc/null"
	"github.com/philpearl/plenc/plenccodec"
	"github.com/philpearl/plenc/plenccore"
)

// One instance per configuration; "cfg" is "<protoTime><protoArrays>" or
// (cfg <flags> [null] (reg xTYPENAME xTAG codec)...).
var instances = map[string]*plenc.Plenc{}

var markerCodecs = map[string]plenccodec.Codec{
	"bool": plenccodec.BoolCodec{}, "int8": plenccodec.IntCodec[int8]{}, "int16": plenccodec.IntCodec[int16]{},
	"int32": plenccodec.IntCodec[int32]{}, "int64": plenccodec.IntCodec[int64]{},
	"uint8": plenccodec.UintCodec[uint8]{}, "uint16": plenccodec.UintCodec[uint16]{},
	"uint32": plenccodec.UintCodec[uint32]{}, "uint64": plenccodec.UintCodec[uint64]{},
	"flat8": plenccodec.FlatIntCodec[uint8]{}, "flat16": plenccodec.FlatIntCodec[uint16]{},
	"flat32": plenccodec.FlatIntCodec[uint32]{}, "flat64": plenccodec.FlatIntCodec[uint64]{},
	"f32": plenccodec.Float32Codec{}, "f64": plenccodec.Float64Codec{},
	"str": plenccodec.StringCodec{}, "bytes": plenccodec.BytesCodec{},
	"time": plenccodec.TimeCodec{}, "timec": plenccodec.TimeCompatCodec{},
}

func regTypeByName(n string) (reflect.Type, bool) {
	goNames := map[string]string{"bool": "bool", "int8": "int8", "int16": "int16", "int32": "int32", "int64": "int64",
		"uint8": "uint8", "uint16": "uint16", "uint32": "uint32", "uint64": "uint64", "float32": "f32", "float64": "f64", "string": "str"}
	if b, ok := goNames[n]; ok {
		return basicTypes[b], true
	}
	if n == "time.Time" {
		return timeType, true
	}
	if n == "[]byte" {
		return reflect.TypeOf([]byte(nil)), true
	}
	if t, ok := extTypes[n]; ok {
		return t, true
	}
	t, ok := staticTypes[n]
	return t, ok
}

func instance(cfg *Sexp) (*plenc.Plenc, string, error) {
	key := cfg.String()
	flags := key
	if cfg.IsL {
		if cfg.head() != "cfg" || len(cfg.List) < 2 {
			return nil, "", fmt.Errorf("bad cfg")
		}
		flags = cfg.List[1].Atom
	}
	if len(flags) != 2 {
		return nil, "", fmt.Errorf("bad cfg flags")
	}
	if p, ok := instances[key]; ok {
		return p, flags, nil
	}
	p := &plenc.Plenc{ProtoCompatibleTime: flags[0] == '1', ProtoCompatibleArrays: flags[1] == '1'}
	p.RegisterDefaultCodecs()
	if cfg.IsL {
		for _, it := range cfg.List[2:] {
			if !it.IsL && it.Atom == "null" {
				plencnull.AddCodecs(p)
				continue
			}
			if it.head() == "reg" && len(it.List) == 4 {
				n, e1 := unhx(it.List[1].Atom)
				tg, e2 := unhx(it.List[2].Atom)
				c, ok := markerCodecs[it.List[3].Atom]
				rt, ok2 := regTypeByName(string(n))
				if e1 != nil || e2 != nil || !ok || !ok2 {
					return nil, "", fmt.Errorf("bad reg")
				}
				p.RegisterCodecWithTag(rt, string(tg), c)
				continue
			}
			return nil, "", fmt.Errorf("bad cfg item")
		}
	}
	instances[key] = p
	return p, flags, nil
}

// guard runs f, mapping a recoverable panic to the outcome class "panic".
func guard(f func() string) (out string) {
	defer func() {
		if r := recover(); r != nil {
			out = "panic"
			lastPanicMu.Lock()
			lastPanic = fmt.Sprint(r)
			lastPanicMu.Unlock()
		}
	}()
	return f()
}

var lastHeaderMsg string

// text and unwrap-chain length of the last decode error (dec / decdeep)
var (
	lastDecErr      string
	lastDecErrChain int
)

var (
	lastPanic   string
	lastPanicMu sync.Mutex
)

func renderAny(c interface{}) string {
	if cd, ok := c.(plenccodec.Codec); ok {
		return renderCodecD(cd, 5)
	}
	return "?"
}

func plencnullAdd(p *plenc.Plenc) { plencnull.AddCodecs(p) }

func atoiU(s string) (uint64, bool) {
	v, err := strconv.ParseUint(s, 10, 64)
	return v, err == nil
}

func cat(a, b []byte) []byte { return append(append([]byte(nil), a...), b...) }

// renderCodec renders the codec tree plenc actually built, in the model's
// `showTy` syntax, from the concrete Go codec types.
func renderCodec(c plenccodec.Codec) string {
	switch c.(type) {
	case plenccodec.BoolCodec:
		return "bool"
	case plenccodec.IntCodec[int]:
		return "int64"
	case plenccodec.IntCodec[int8]:
		return "int8"
	case plenccodec.IntCodec[int16]:
		return "int16"
	case plenccodec.IntCodec[int32]:
		return "int32"
	case plenccodec.IntCodec[int64]:
		return "int64"
	case plenccodec.UintCodec[uint]:
		return "uint64"
	case plenccodec.UintCodec[uint8]:
		return "uint8"
	case plenccodec.UintCodec[uint16]:
		return "uint16"
	case plenccodec.UintCodec[uint32]:
		return "uint32"
	case plenccodec.UintCodec[uint64]:
		return "uint64"
	case plenccodec.FlatIntCodec[uint]:
		return "flat64"
	case plenccodec.FlatIntCodec[uint8]:
		return "flat8"
	case plenccodec.FlatIntCodec[uint16]:
		return "flat16"
	case plenccodec.FlatIntCodec[uint32]:
		return "flat32"
	case plenccodec.FlatIntCodec[uint64]:
		return "flat64"
	case plenccodec.Float32Codec:
		return "f32"
	case plenccodec.Float64Codec:
		return "f64"
	case plenccodec.StringCodec:
		return "str"
	case *plenccodec.InternedStringCodec:
		return "istr"
	case plenccodec.BytesCodec:
		return "bytes"
	case plenccodec.TimeCodec:
		return "time"
	case plenccodec.TimeCompatCodec:
		return "timec"
	}
	switch fmt.Sprintf("%T", c) {
	case "null.nullIntCodec":
		return "(ptr int64)"
	case "null.nullBoolCodec":
		return "(ptr bool)"
	case "null.nullFloatCodec":
		return "(ptr f64)"
	case "null.nullStringCodec":
		return "(ptr str)"
	case "*null.internedNullStringCodec":
		return "(ptr istr)"
	case "*null.nullTimeCodec":
		return "(ptr time)"
	}
	return fmt.Sprintf("(unknown %T)", c)
}

// renderCodecD renders a codec tree showing struct fields down to `d` levels of
// struct nesting (recursive codec graphs are cyclic); the model's showTyD cuts at
// the same depth.
func renderCodecD(c plenccodec.Codec, d int) string {
	switch c := c.(type) {
	case plenccodec.PointerWrapper:
		return "(ptr " + renderCodecD(c.Underlying, d) + ")"
	case plenccodec.WTVarIntSliceWrapper:
		return "(vslice " + renderCodecD(c.Underlying, d) + ")"
	case plenccodec.WTFixedSliceWrapper:
		return "(fslice " + renderCodecD(c.Underlying, d) + ")"
	case plenccodec.WTLengthSliceWrapper:
		return "(lslice " + renderCodecD(c.Underlying, d) + ")"
	case plenccodec.ProtoSliceWrapper:
		return "(pslice " + renderCodecD(c.Underlying, d) + ")"
	case *plenccodec.MapCodec:
		k, v := c.VerifKV()
		return "(map " + renderCodecD(k, d) + " " + renderCodecD(v, d) + ")"
	case plenccodec.ProtoMapCodec:
		k, v := c.VerifKV()
		return "(pmap " + renderCodecD(k, d) + " " + renderCodecD(v, d) + ")"
	case *plenccodec.StructCodec:
		s := "(struct " + hxs(c.VerifName())
		if d > 0 {
			for _, f := range c.VerifFields() {
				s += fmt.Sprintf(" (%d %s %s)", f.Index, hxs(f.Name), renderCodecD(f.Codec, d-1))
			}
		}
		return s + ")"
	}
	return renderCodec(c)
}

type opCtx struct {
	cfg string
	td  *TyDef
	tag string
	rt  reflect.Type
	p   *plenc.Plenc
}

func parseCtx(s *Sexp) (*opCtx, error) {
	// (op cfg tydef tag ...)
	if len(s.List) < 4 {
		return nil, fmt.Errorf("short op")
	}
	p, cfg, err := instance(s.List[1])
	if err != nil {
		return nil, err
	}
	td, err := parseTyDef(s.List[2])
	if err != nil {
		return nil, err
	}
	tag, err := unhx(s.List[3].Atom)
	if err != nil {
		return nil, err
	}
	rt, err := td.RT()
	if err != nil {
		return nil, err
	}
	return &opCtx{cfg: cfg, td: td, tag: string(tag), rt: rt, p: p}, nil
}

func (c *opCtx) codec() (plenccodec.Codec, error) {
	return c.p.CodecForTypeWithTag(c.rt, c.tag)
}

// marshalVia marshals a value of the op's type through the public API. With a
// non-empty top-level tag there is no public Marshal, so the codec is used
// directly the way Marshal does.
func (c *opCtx) marshalPtr(pv reflect.Value) ([]byte, error) {
	if c.tag == "" {
		return c.p.Marshal(nil, pv.Interface())
	}
	cd, err := c.codec()
	if err != nil {
		return nil, err
	}
	ptr := pv.UnsafePointer()
	if c.rt.Kind() == reflect.Map {
		ptr = *(*unsafe.Pointer)(ptr)
	}
	if cd.Omit(ptr) {
		return nil, nil
	}
	return cd.Append(nil, ptr, nil), nil
}

func (c *opCtx) unmarshalPtr(data []byte, pv reflect.Value) error {
	if c.tag == "" {
		return c.p.Unmarshal(data, pv.Interface())
	}
	cd, err := c.codec()
	if err != nil {
		return err
	}
	_, err = cd.Read(data, pv.UnsafePointer(), cd.WireType())
	return err
}

func (c *opCtx) newValue(v *Val) (reflect.Value, error) {
	pv := reflect.New(c.rt)
	if v != nil {
		if err := v.ToReflect(pv.Elem(), c.td); err != nil {
			return pv, err
		}
	}
	return pv, nil
}

// execOp runs one op against the real code and returns the canonical result line.
func execOp(s *Sexp) string {
	lastHeaderMsg = ""
	h := s.head()
	arg := func(i int) string {
		if i < len(s.List) && !s.List[i].IsL {
			return s.List[i].Atom
		}
		return ""
	}
	switch h {
	case "alias":
		return execAlias(s)
	case "world":
		return execWorld(s)
	case "tagtool":
		return execTagtool(s)
	case "jrt":
		return execJRT(s)
	case "jdeep":
		return execJDeep(s)
	case "tdeep":
		return execTDeep(s)
	case "descconc":
		// (descconc ROUNDS): goroutines ask for the Descriptors of types that share nested struct types, at
		// once; every answer must be the one a lone caller gets. Oracle only.
		rounds, err := strconv.Atoi(arg(1))
		if err != nil || rounds < 1 || rounds > 1000000 {
			return "bad-op"
		}
		return guard(func() string {
			p := &plenc.Plenc{}
			p.RegisterDefaultCodecs()
			types := []reflect.Type{reflect.TypeOf(Outer{}), reflect.TypeOf(Inner{}), reflect.TypeOf(Emb{}), reflect.TypeOf(ProtoMapHolder{}), reflect.TypeOf([]Outer{}), reflect.TypeOf(Steady{})}
			var codecs []plenccodec.Codec
			var want []string
			for _, t := range types {
				c, err := p.CodecForType(t)
				if err != nil {
					return "err"
				}
				d := c.Descriptor()
				codecs, want = append(codecs, c), append(want, renderDesc(&d))
			}
			var wg sync.WaitGroup
			var mu sync.Mutex
			msg := ""
			for gi := 0; gi < 8; gi++ {
				gi := gi
				wg.Add(1)
				go func() {
					defer wg.Done()
					for k := 0; k < rounds; k++ {
						i := (gi + k) % len(codecs)
						d := codecs[i].Descriptor()
						if got := renderDesc(&d); got != want[i] {
							mu.Lock()
							if msg == "" {
								msg = fmt.Sprintf("ok wrong: concurrent Descriptor() of %s returned %s, alone it is %s", types[i], clip(got, 200), clip(want[i], 200))
							}
							mu.Unlock()
							return
						}
					}
				}()
			}
			wg.Wait()
			if msg != "" {
				return msg
			}
			return "ok"
		})
	case "jconc":
		// (jconc ROUNDS): goroutines marshal JSON-any values whose texts differ in length, at once; every
		// encoding must be the one a lone caller gets and must decode to the value. Oracle only.
		rounds, err := strconv.Atoi(arg(1))
		if err != nil || rounds < 1 || rounds > 1000000 {
			return "bad-op"
		}
		return guard(func() string {
			p := jsonInstance()
			var want [][]byte
			// single-entry objects, so that map order plays no part
			one := func(i int) ([]byte, map[string]interface{}) {
				m := map[string]interface{}{strings.Repeat("k", 1+i%7): strings.Repeat("v", i%200)}
				if i%3 == 0 {
					m = map[string]interface{}{"n": json.Number(strings.Repeat("1", 1+i%15))}
				}
				d, _ := p.Marshal(nil, &m)
				return d, m
			}
			for i := 0; i < 64; i++ {
				d, _ := one(i)
				want = append(want, append([]byte(nil), d...))
			}
			var wg sync.WaitGroup
			var mu sync.Mutex
			msg := ""
			for gi := 0; gi < 8; gi++ {
				gi := gi
				wg.Add(1)
				go func() {
					defer wg.Done()
					for k := 0; k < rounds; k++ {
						i := (gi*7 + k) % 64
						if d, _ := one(i); !bytes.Equal(d, want[i]) {
							mu.Lock()
							if msg == "" {
								msg = fmt.Sprintf("ok wrong: concurrent Marshal of a JSON-any value gave %s, alone it gives %s", hx(d), hx(want[i]))
							}
							mu.Unlock()
							return
						}
					}
				}()
			}
			wg.Wait()
			if msg != "" {
				return msg
			}
			return "ok"
		})
	case "jdescdeep":
		// (jdescdeep N): one-element JSON arrays nested N deep, walked with the Descriptor into the JSON
		// outputter: how large is the output (and so the memory) for how much input? Oracle only.
		n, err := strconv.Atoi(arg(1))
		if err != nil || n < 1 || n > 100000 {
			return "bad-op"
		}
		return guard(func() string {
			data := deepArrayBytes(n)
			c, err := jsonInstance().CodecForType(reflect.TypeOf([]interface{}(nil)))
			if err != nil {
				return "err"
			}
			d := c.Descriptor()
			var out plenccodec.JSONOutput
			if err := d.Read(&out, data); err != nil {
				return "err"
			}
			return fmt.Sprintf("ok %d %d", len(out.Done()), len(data))
		})
	case "gcptrs":
		// (gcptrs KIND N): a slice of N pointers is decoded; the pointers are only reachable through the
		// decoded slice; after garbage collections and fresh allocations every pointee is still there
		n, err := strconv.Atoi(arg(2))
		if err != nil || n < 1 || n > 1000000 {
			return "bad-op"
		}
		return guard(func() string {
			type el struct {
				A int64  `plenc:"1"`
				S string `plenc:"2"`
			}
			type holder struct {
				I []*int64  `plenc:"1"`
				B []*bool   `plenc:"2"`
				S []*string `plenc:"3"`
				E []*el     `plenc:"4"`
			}
			p := &plenc.Plenc{}
			p.RegisterDefaultCodecs()
			in := &holder{}
			for i := 0; i < n; i++ {
				switch arg(1) {
				case "int64":
					v := int64(i*7 + 1)
					in.I = append(in.I, &v)
				case "bool":
					v := i%3 == 0
					in.B = append(in.B, &v)
				case "str":
					v := fmt.Sprintf("s%d", i)
					in.S = append(in.S, &v)
				default:
					in.E = append(in.E, &el{A: int64(i + 1), S: "x"})
				}
			}
			data, err := p.Marshal(nil, in)
			if err != nil {
				return "err"
			}
			in = nil
			out := &holder{}
			if err := p.Unmarshal(data, out); err != nil {
				return "err"
			}
			data = nil
			var filler [][]byte
			for round := 0; round < 3; round++ {
				runtime.GC()
				for k := 0; k < 4000; k++ {
					b := make([]byte, 8+k%24)
					for j := range b {
						b[j] = 0xEE
					}
					filler = append(filler, b)
				}
			}
			_ = filler
			for i := 0; i < n; i++ {
				ok := true
				switch arg(1) {
				case "int64":
					ok = len(out.I) == n && out.I[i] != nil && *out.I[i] == int64(i*7+1)
				case "bool":
					ok = len(out.B) == n && out.B[i] != nil && *out.B[i] == (i%3 == 0)
				case "str":
					ok = len(out.S) == n && out.S[i] != nil && *out.S[i] == fmt.Sprintf("s%d", i)
				default:
					ok = len(out.E) == n && out.E[i] != nil && out.E[i].A == int64(i+1) && out.E[i].S == "x"
				}
				if !ok {
					return fmt.Sprintf("ok wrong: element %d changed after garbage collection", i)
				}
			}
			return "ok"
		})
	case "unwrap":
		// (unwrap KIND): an envelope is decoded, its payload (bytes of an inner envelope) is decoded into the
		// SAME variable: the input of the second call is memory the target holds. It must come out unchanged,
		// and what was decoded must not be a view of it.
		return guard(func() string {
			type Blob []byte
			type envB struct {
				Kind    int    `plenc:"1"`
				Payload []byte `plenc:"2"`
			}
			type envN struct {
				Kind    int  `plenc:"1"`
				Payload Blob `plenc:"2"`
			}
			type envM struct {
				Kind int               `plenc:"1"`
				M    map[string][]byte `plenc:"2"`
			}
			p := &plenc.Plenc{}
			p.RegisterDefaultCodecs()
			check := func(raw, snap []byte, got []byte) string {
				if !bytes.Equal(raw, snap) {
					return "ok wrong: Unmarshal changed its input: " + hx(snap) + " became " + hx(raw)
				}
				if string(got) != "hello world ÿ" {
					return "ok wrong: decoded payload " + hx(got)
				}
				for i := range raw {
					raw[i] = 0xAA
				}
				if string(got) != "hello world ÿ" {
					return "ok wrong: the decoded payload is a view of the input"
				}
				return "ok"
			}
			payload := []byte("hello world ÿ")
			switch arg(1) {
			case "bytes":
				inner, _ := p.Marshal(nil, &envB{Kind: 7, Payload: payload})
				outer, _ := p.Marshal(nil, &envB{Kind: 1, Payload: inner})
				var env envB
				if err := p.Unmarshal(outer, &env); err != nil {
					return "err"
				}
				raw := env.Payload
				snap := append([]byte(nil), raw...)
				if err := p.Unmarshal(raw, &env); err != nil {
					return "ok wrong: second decode failed: " + err.Error()
				}
				return check(raw, snap, env.Payload)
			case "blob":
				inner, _ := p.Marshal(nil, &envN{Kind: 7, Payload: payload})
				outer, _ := p.Marshal(nil, &envN{Kind: 1, Payload: inner})
				var env envN
				if err := p.Unmarshal(outer, &env); err != nil {
					return "err"
				}
				raw := []byte(env.Payload)
				snap := append([]byte(nil), raw...)
				if err := p.Unmarshal(raw, &env); err != nil {
					return "ok wrong: second decode failed: " + err.Error()
				}
				return check(raw, snap, env.Payload)
			case "map":
				inner, _ := p.Marshal(nil, &envM{Kind: 7, M: map[string][]byte{"k": payload}})
				outer, _ := p.Marshal(nil, &envM{Kind: 1, M: map[string][]byte{"k": inner}})
				var env envM
				if err := p.Unmarshal(outer, &env); err != nil {
					return "err"
				}
				raw := env.M["k"]
				snap := append([]byte(nil), raw...)
				if err := p.Unmarshal(raw, &env); err != nil {
					return "ok wrong: second decode failed: " + err.Error()
				}
				return check(raw, snap, env.M["k"])
			}
			return "bad-op"
		})
	case "jalias":
		// (jalias): JSON-any values (strings, keys, json.Number) survive the re-use of the input buffer
		return guard(func() string {
			p := jsonInstance()
			in := map[string]interface{}{"key-one": "text", "n": json.Number("12345678901234567890"), "a": []interface{}{json.Number("1.5e300"), "s"}}
			data, err := p.Marshal(nil, &in)
			if err != nil {
				return "err"
			}
			var out map[string]interface{}
			if err := p.Unmarshal(data, &out); err != nil {
				return "err"
			}
			for i := range data {
				data[i] = 0xAA
			}
			if !reflect.DeepEqual(out, in) {
				return fmt.Sprintf("ok wrong: after the input buffer was overwritten the decoded value is %q", fmt.Sprint(out))
			}
			return "ok"
		})
	case "regselfhist":
		// (regselfhist): whether []P / *P is accepted for a self-referential P depends on THIS instance's
		// registrations, not on what another instance (or this one, earlier) found out
		return guard(func() string {
			t := reflect.TypeOf([]PSelf(nil))
			pt := reflect.TypeOf((*PSelf)(nil))
			p1 := &plenc.Plenc{}
			p1.RegisterDefaultCodecs()
			if _, err := p1.CodecForType(t); err == nil {
				return "ok wrong: []PSelf accepted without a registration"
			}
			p2 := &plenc.Plenc{}
			p2.RegisterDefaultCodecs()
			if _, err := p2.CodecForType(pt); err == nil {
				return "ok wrong: *PSelf accepted without a registration"
			}
			p2.RegisterCodec(reflect.TypeOf(PSelf(nil)), plenccodec.IntCodec[int]{})
			if _, err := p2.CodecForType(t); err != nil {
				return "ok wrong: []PSelf rejected although PSelf has a registered codec on this instance: " + clip(err.Error(), 100)
			}
			if _, err := p2.CodecForType(pt); err != nil {
				return "ok wrong: *PSelf rejected although PSelf has a registered codec on this instance: " + clip(err.Error(), 100)
			}
			if _, err := p1.CodecForType(t); err == nil {
				return "ok wrong: the registration on another instance made []PSelf acceptable here"
			}
			return "ok"
		})
	case "pkgreg":
		// (pkgreg): a registration on the package-level default made BEFORE its first use (as in an init
		// function) is honoured: a fresh process registers, then marshals
		return guard(func() string {
			out, err := exec.Command(os.Args[0], "pkgreg").CombinedOutput()
			if err != nil {
				return "ok wrong: " + clip(strings.TrimSpace(string(out)), 200) + " (" + err.Error() + ")"
			}
			return strings.TrimSpace(string(out))
		})
	case "entriespresent":
		// (entriespresent xDATA MAX): the room a counted container asks for (verif hook on the real function)
		d, e1 := unhx(arg(1))
		mx, ok := atoiU(arg(2))
		if e1 != nil || !ok {
			return "bad-op"
		}
		return guard(func() string { return fmt.Sprintf("ok %d", plenccodec.VerifEntriesPresent(d, mx)) })
	case "entryorder":
		// (entryorder): a map entry whose value field (2) comes BEFORE its key field (1): "fields in any order"
		return guard(func() string {
			type holder struct {
				M map[string]int `plenc:"1"`
			}
			p := &plenc.Plenc{}
			p.RegisterDefaultCodecs()
			normal := []byte{0x0b, 0x01, 0x05, 0x0a, 0x01, 0x61, 0x10, 0x0e}
			swapped := []byte{0x0b, 0x01, 0x05, 0x10, 0x0e, 0x0a, 0x01, 0x61}
			var a, b holder
			if err := p.Unmarshal(normal, &a); err != nil || a.M["a"] != 7 {
				return fmt.Sprintf("bad-op the key-first entry did not decode: %v %v", a, err)
			}
			if err := p.Unmarshal(swapped, &b); err != nil {
				return "ok wrong: value-before-key entry rejected: " + clip(err.Error(), 120)
			}
			if len(b.M) != 1 || b.M["a"] != 7 {
				return fmt.Sprintf("ok wrong: value-before-key entry decoded as %v", b.M)
			}
			return "ok"
		})
	case "reginterntag":
		// (reginterntag): a codec registered under the tag name "intern" is the one used for that (type, tag)
		return guard(func() string {
			type holder struct {
				A int `plenc:"1,intern"`
			}
			p := &plenc.Plenc{}
			p.RegisterDefaultCodecs()
			p.RegisterCodecWithTag(reflect.TypeOf(int(0)), "intern", plenccodec.FlatIntCodec[uint]{})
			data, err := p.Marshal(nil, &holder{A: 3})
			if err != nil {
				return "err"
			}
			if hx(data) != "x0803" {
				return "ok wrong: field tagged `intern` encoded as " + hx(data) + ", the codec registered under (int, \"intern\") writes 0803"
			}
			return "ok"
		})
	case "regmapkind":
		// (regmapkind): a registered codec for a defined MAP type is used wherever the type occurs
		return guard(func() string {
			type probeMap map[string]interface{}
			type asField struct {
				M probeMap `plenc:"1"`
			}
			type asPtr struct {
				M *probeMap `plenc:"1"`
			}
			type asElem struct {
				M []probeMap `plenc:"1"`
			}
			type asValue struct {
				M map[string]probeMap `plenc:"1"`
			}
			p := &plenc.Plenc{}
			p.RegisterDefaultCodecs()
			p.RegisterCodec(reflect.TypeOf(probeMap{}), plenccodec.JSONMapCodec{})
			var bad []string
			for _, t := range []reflect.Type{reflect.TypeOf(asField{}), reflect.TypeOf(asPtr{}), reflect.TypeOf(asElem{}), reflect.TypeOf(asValue{})} {
				if _, err := p.CodecForType(t); err != nil {
					bad = append(bad, t.Name())
				}
			}
			if len(bad) > 0 {
				return "ok wrong: rejected although the map type has a registered codec: " + strings.Join(bad, ", ")
			}
			return "ok"
		})
	case "regintern":
		// (regintern): a named string type with a registered codec that cannot intern keeps that codec in a
		// field tagged `intern` (the option asks a codec to intern if it can; it never selects another one).
		return guard(func() string {
			type holder struct {
				A MyStr  `plenc:"1,intern"`
				B MyStr  `plenc:"2"`
				C *MyStr `plenc:"3,intern"`
			}
			p := &plenc.Plenc{}
			p.RegisterDefaultCodecs()
			p.RegisterCodec(reflect.TypeOf(MyStr("")), upperCodec{})
			s := MyStr("abc")
			data, err := p.Marshal(nil, &holder{A: "abc", B: "abc", C: &s})
			if err != nil {
				return "err"
			}
			if want := "0a034142431203414243" + "1a03414243"; hx(data) != "x"+want {
				return "ok wrong: " + hx(data)
			}
			var out holder
			if err := p.Unmarshal(data, &out); err != nil || out.A != "ABC" || out.B != "ABC" || out.C == nil || *out.C != "ABC" {
				return fmt.Sprintf("ok wrong: decoded %+v (err %v)", out, err)
			}
			return "ok"
		})
	case "bqptr":
		// (bqptr N): the exported BQTimestampCodec registered under a tag, used behind a NIL pointer and as a
		// map key (the two places that call the codec's New): N decodes; every earlier result must stay intact
		n, err := strconv.Atoi(arg(1))
		if err != nil || n < 1 || n > 100000 {
			return "bad-op"
		}
		return guard(func() string {
			type holder struct {
				A  int                  `plenc:"1"`
				At *time.Time           `plenc:"2,bq"`
				M  map[time.Time]string `plenc:"3"`
			}
			p := &plenc.Plenc{}
			p.RegisterDefaultCodecs()
			p.RegisterCodecWithTag(reflect.TypeOf(time.Time{}), "bq", plenccodec.BQTimestampCodec{})
			// … and as the codec for every time.Time of a second instance (so that map keys use it)
			type holder2 struct {
				M map[time.Time]int `plenc:"1"`
				P *time.Time        `plenc:"2"`
			}
			p2 := &plenc.Plenc{}
			p2.RegisterDefaultCodecs()
			p2.RegisterCodec(reflect.TypeOf(time.Time{}), plenccodec.BQTimestampCodec{})
			var outs2 []*holder2
			for i := 0; i < n; i++ {
				at := time.Unix(1600000000+int64(i)*60, int64(i%1000)*1000).UTC()
				data, err := p2.Marshal(nil, &holder2{M: map[time.Time]int{at: i}, P: &at})
				if err != nil {
					return "err"
				}
				out := &holder2{}
				if err := p2.Unmarshal(data, out); err != nil {
					return "err"
				}
				outs2 = append(outs2, out)
			}
			for i, out := range outs2 {
				want := time.Unix(1600000000+int64(i)*60, int64(i%1000)*1000).UTC()
				if out.P == nil || !out.P.Equal(want) || len(out.M) != 1 {
					return fmt.Sprintf("ok wrong: (default registration) decode %d holds %v, want %v", i, out.P, want)
				}
				for k, v := range out.M {
					if !k.Equal(want) || v != i {
						return fmt.Sprintf("ok wrong: (default registration) decode %d has key %v, want %v", i, k, want)
					}
				}
			}
			var outs []*holder
			for i := 0; i < n; i++ {
				at := time.Unix(1700000000+int64(i)*3600, int64(i%1000)*1000).UTC()
				in := holder{A: i + 1, At: &at, M: map[time.Time]string{at: "x"}}
				data, err := p.Marshal(nil, &in)
				if err != nil {
					return "err"
				}
				out := &holder{}
				if err := p.Unmarshal(data, out); err != nil {
					return "err"
				}
				outs = append(outs, out)
			}
			for i, out := range outs {
				want := time.Unix(1700000000+int64(i)*3600, int64(i%1000)*1000).UTC()
				if out.A != i+1 || out.At == nil || !out.At.Equal(want) || out.At.Location() == nil {
					return fmt.Sprintf("ok wrong: decode %d holds %v, want %v", i, out.At, want)
				}
				if len(out.M) != 1 {
					return fmt.Sprintf("ok wrong: decode %d has %d map entries", i, len(out.M))
				}
				for k := range out.M {
					if !k.Equal(want) {
						return fmt.Sprintf("ok wrong: decode %d has key %v, want %v", i, k, want)
					}
				}
			}
			return "ok"
		})
	case "latereg":
		// (latereg KIND): a use that fails because a type has no codec leaves nothing behind: once the
		// codec is registered on that same instance the same call works, and gives what an instance
		// registered-before-use gives. Oracle only (the world model covers registration before use).
		return guard(func() string {
			type holder struct {
				A int                    `plenc:"1"`
				M map[string]interface{} `plenc:"2"`
				L []interface{}          `plenc:"3"`
			}
			mk := func() interface{} {
				switch arg(1) {
				case "struct":
					return &holder{A: 3, M: map[string]interface{}{"k": 1}, L: []interface{}{"x", nil}}
				case "map":
					m := map[string]interface{}{"k": "v"}
					return &m
				case "arr":
					l := []interface{}{1, "two"}
					return &l
				}
				return nil
			}
			if mk() == nil {
				return "bad-op"
			}
			reg := func(p *plenc.Plenc) {
				p.RegisterCodec(reflect.TypeOf(map[string]interface{}(nil)), plenccodec.JSONMapCodec{})
				p.RegisterCodec(reflect.TypeOf([]interface{}(nil)), plenccodec.JSONArrayCodec{})
			}
			late := &plenc.Plenc{}
			late.RegisterDefaultCodecs()
			if _, err := late.Marshal(nil, mk()); err == nil {
				return "ok first-use-unexpectedly-succeeded"
			}
			if _, err := late.CodecForType(reflect.TypeOf(mk()).Elem()); err == nil {
				return "ok first-use-unexpectedly-succeeded"
			}
			reg(late)
			got, err := late.Marshal(nil, mk())
			if err != nil {
				return "ok still-fails-after-registration: " + err.Error()
			}
			early := &plenc.Plenc{}
			early.RegisterDefaultCodecs()
			reg(early)
			want, err := early.Marshal(nil, mk())
			if err != nil {
				return "err"
			}
			if hx(got) != hx(want) {
				return "ok differs " + hx(got) + " vs " + hx(want)
			}
			back := reflect.New(reflect.TypeOf(mk()).Elem())
			if err := late.Unmarshal(got, back.Interface()); err != nil {
				return "ok decode-fails-after-registration"
			}
			return "ok same"
		})
	case "ptrkeys":
		// (ptrkeys N): maps with POINTER keys (legal, but outside the value model: keys are identities):
		// N decodes on one instance into fresh variables; every result must keep its own contents and
		// its own key objects. Oracle only.
		n, err := strconv.Atoi(arg(1))
		if err != nil || n < 1 || n > 64 {
			return "bad-op"
		}
		return guard(func() string {
			type holder struct {
				M map[*string]int   `plenc:"1"`
				N map[*int32]string `plenc:"2"`
				P map[*string]int   `plenc:"3,proto"`
			}
			p := &plenc.Plenc{}
			p.RegisterDefaultCodecs()
			var outs []*holder
			for i := 0; i < n; i++ {
				in := holder{M: map[*string]int{}, N: map[*int32]string{}, P: map[*string]int{}}
				for k := 0; k <= i%3; k++ {
					ks := fmt.Sprintf("key-%d-%d", i, k)
					ki := int32(i*10 + k + 1)
					in.M[&ks] = i + 1
					in.N[&ki] = ks
					ks2 := ks + "p"
					in.P[&ks2] = i + 7
				}
				data, err := p.Marshal(nil, &in)
				if err != nil {
					return "err"
				}
				out := &holder{}
				if err := p.Unmarshal(data, out); err != nil {
					return "err"
				}
				outs = append(outs, out)
			}
			seen := map[*string]bool{}
			for i, out := range outs {
				want := i%3 + 1
				if len(out.M) != want || len(out.N) != want || len(out.P) != want {
					return fmt.Sprintf("ok wrong: decode %d has %d/%d/%d entries, want %d", i, len(out.M), len(out.N), len(out.P), want)
				}
				for k, v := range out.M {
					if k == nil || !strings.HasPrefix(*k, fmt.Sprintf("key-%d-", i)) || v != i+1 {
						return fmt.Sprintf("ok wrong: decode %d now holds a key/value of another decode", i)
					}
					if seen[k] {
						return "ok wrong: two decoded maps share a key object"
					}
					seen[k] = true
				}
				for k, v := range out.N {
					if k == nil || int(*k)/10 != i || !strings.HasPrefix(v, fmt.Sprintf("key-%d-", i)) {
						return fmt.Sprintf("ok wrong: decode %d (int keys) now holds a key/value of another decode", i)
					}
				}
				for k, v := range out.P {
					if k == nil || !strings.HasPrefix(*k, fmt.Sprintf("key-%d-", i)) || v != i+7 {
						return fmt.Sprintf("ok wrong: decode %d (proto map) now holds a key/value of another decode", i)
					}
				}
			}
			return "ok"
		})
	case "internmany":
		// (internmany N): N distinct values, then a sample of them again, through ONE interned field
		// (far more distinct values than the histories the model follows): oracle only
		n, err := strconv.Atoi(arg(1))
		if err != nil || n < 1 || n > 200000 {
			return "bad-op"
		}
		return guard(func() string {
			p := &plenc.Plenc{}
			p.RegisterDefaultCodecs()
			bad := 0
			first := ""
			decode := func(i int) {
				d := []byte(fmt.Sprintf("value-%06d", i))
				buf := append(refTag(1, 2), lenPrefixed(d)...)
				var v internStr
				if err := p.Unmarshal(buf, &v); err != nil || v.S != string(d) {
					bad++
					if first == "" {
						first = fmt.Sprintf("value %d decoded as %q (err %v)", i, v.S, err)
					}
				}
				for k := range buf {
					buf[k] = 0xAA
				}
			}
			for i := 0; i < n; i++ {
				decode(i)
			}
			for i := 0; i < n; i += 1 + n/64 {
				decode(i)
			}
			decode(n + 1)
			if bad > 0 {
				return fmt.Sprintf("ok wrong=%d first: %s", bad, first)
			}
			return "ok wrong=0"
		})
	case "declong":
		// (declong cfgE cfgD KIND N): a value with N elements / entries is written by one configuration and
		// read by another; far too long for the model (its decoder is quadratic): oracle only
		if len(s.List) != 5 {
			return "bad-op"
		}
		pe, _, e1 := instance(s.List[1])
		pd, _, e2 := instance(s.List[2])
		n, e3 := strconv.Atoi(arg(4))
		t, ok := longTypes[arg(3)]
		if e1 != nil || e2 != nil || e3 != nil || !ok || n < 1 || n > 2000000 {
			return "bad-op"
		}
		return guard(func() string {
			rt, err := t.RT()
			if err != nil {
				return "bad-op rt"
			}
			v := bigValue(t, n)
			src := reflect.New(rt)
			if err := v.ToReflect(src.Elem(), t); err != nil {
				return "bad-op " + err.Error()
			}
			data, err := pe.Marshal(nil, src.Interface())
			if err != nil {
				return "err"
			}
			dst := reflect.New(rt)
			a0 := totalAlloc()
			err = pd.Unmarshal(data, dst.Interface())
			used := totalAlloc() - a0
			if err != nil {
				return "err"
			}
			lastHeaderMsg = badSliceHeaders(dst.Elem())
			same := reflect.DeepEqual(src.Elem().Interface(), dst.Elem().Interface())
			bound := uint64(64<<10) + 3*uint64(maxNodeSize(rt))*uint64(len(data))
			return fmt.Sprintf("ok same=%v input=%d within=%v alloc=%d bound=%d", same, len(data), used <= bound, used, bound)
		})
	case "deschost":
		// (deschost cfg T tag xDATA): arbitrary bytes through T's Descriptor
		c, err := parseCtx(s)
		if err != nil {
			return "bad-op " + err.Error()
		}
		data, err := unhx(arg(4))
		if err != nil {
			return "bad-op"
		}
		return guard(func() string {
			cd, err := c.codec()
			if err != nil {
				return "builderr"
			}
			d := cd.Descriptor()
			var rec recOut
			if err := d.Read(&rec, data); err != nil {
				return "err"
			}
			return "ok " + strings.Join(rec.calls, " ")
		})
	case "jhost", "jhostdesc":
		// (jhost obj|arr xDATA): arbitrary bytes into map[string]any / []any; jhostdesc: through the codec's Descriptor
		data, err := unhx(arg(2))
		if err != nil {
			return "bad-op"
		}
		p := jsonInstance()
		return guard(func() string {
			if arg(1) == "obj" {
				if s.head() == "jhostdesc" {
					c, _ := p.CodecForType(reflect.TypeOf(map[string]interface{}(nil)))
					return descBoth(c, data)
				}
				var back map[string]interface{}
				if err := p.Unmarshal(data, &back); err != nil {
					return "err"
				}
				return "ok " + showJ(back)
			}
			if s.head() == "jhostdesc" {
				c, _ := p.CodecForType(reflect.TypeOf([]interface{}(nil)))
				return descBoth(c, data)
			}
			var back []interface{}
			if err := p.Unmarshal(data, &back); err != nil {
				return "err"
			}
			return "ok " + showJ(back)
		})
	case "buildself":
		// (buildself xNAME): CodecForType on a static defined type that refers to itself
		// through pointers/slices only (no finite TyDef, so outside the model)
		n, err := unhx(arg(1))
		rt, ok := staticTypes[string(n)]
		if err != nil || !ok {
			return "bad-op"
		}
		return guard(func() string {
			p := &plenc.Plenc{}
			p.RegisterDefaultCodecs()
			if _, err := p.CodecForType(rt); err != nil {
				return "err"
			}
			return "ok"
		})
	case "desc":
		return execDesc(s)
	case "internsched":
		return execInternSched(s)
	case "interntrace":
		return execInternTrace(s)
	case "sched":
		return execSched(s)
	case "regtrace":
		return execRegTrace(s)
	case "desccalls":
		return execDescCalls(s)
	case "descjson":
		return execDescJSON(s)
	case "jsonout":
		return execJSONOut(s)
	case "internseq":
		return execInternSeq(s)
	case "varu":
		v, ok := atoiU(arg(1))
		trail, err := unhx(arg(2))
		if !ok || err != nil {
			return "bad-op"
		}
		return guard(func() string {
			a := plenccore.AppendVarUint(nil, v)
			rv, rn := plenccore.ReadVarUint(cat(a, trail))
			return fmt.Sprintf("%s %d %d %d", hx(a), plenccore.SizeVarUint(v), rv, rn)
		})
	case "bq":
		// (bq SEC NSEC xTAG xTRAIL): BQTimestampCodec Size/Append with and without tag, Omit, Read of body++trail
		sec, e1 := strconv.ParseInt(arg(1), 10, 64)
		nsec, e2 := strconv.ParseInt(arg(2), 10, 64)
		tag, e3 := unhx(arg(3))
		trail, e4 := unhx(arg(4))
		if e1 != nil || e2 != nil || e3 != nil || e4 != nil {
			return "bad-op"
		}
		return guard(func() string {
			c := plenccodec.BQTimestampCodec{}
			t := time.Unix(sec, nsec).UTC()
			p := unsafe.Pointer(&t)
			body := c.Append(nil, p, nil)
			tagged := c.Append(nil, p, tag)
			var back time.Time
			rd := "err"
			if n, err := c.Read(cat(body, trail), unsafe.Pointer(&back), c.WireType()); err == nil {
				rd = fmt.Sprintf("ok %d %d %d", back.Unix(), back.Nanosecond(), n)
			}
			om := 0
			if c.Omit(p) {
				om = 1
			}
			return fmt.Sprintf("%d %s %d %s %d %s", c.Size(p, tag), hx(tagged), c.Size(p, nil), hx(body), om, rd)
		})
	case "bqread":
		d, err := unhx(arg(1))
		if err != nil {
			return "bad-op"
		}
		return guard(func() string {
			c := plenccodec.BQTimestampCodec{}
			var back time.Time
			n, err := c.Read(d, unsafe.Pointer(&back), c.WireType())
			if err != nil {
				return "err"
			}
			return fmt.Sprintf("ok %d %d %d", back.Unix(), back.Nanosecond(), n)
		})
	case "varucap":
		// (varucap V PRELEN SPARE): append into a buffer that already holds PRELEN bytes and has SPARE bytes of spare capacity
		v, ok := atoiU(arg(1))
		pre, ok2 := atoiU(arg(2))
		spare, ok3 := atoiU(arg(3))
		if !ok || !ok2 || !ok3 || pre > 64 || spare > 64 {
			return "bad-op"
		}
		return guard(func() string {
			mk := func() []byte {
				b := make([]byte, pre, pre+spare)
				for i := range b {
					b[i] = byte(0xA0 + i)
				}
				return b
			}
			a := plenccore.AppendVarUint(mk(), v)
			b := plenccore.AppendVarInt(mk(), int64(v))
			c := plenccore.AppendTag(mk(), plenccore.WireType(v&7), int(v>>3&(1<<60-1)))
			return hx(a) + " " + hx(b) + " " + hx(c)
		})
	case "vari":
		v, err1 := strconv.ParseInt(arg(1), 10, 64)
		trail, err := unhx(arg(2))
		if err1 != nil || err != nil {
			return "bad-op"
		}
		return guard(func() string {
			a := plenccore.AppendVarInt(nil, v)
			rv, rn := plenccore.ReadVarInt(cat(a, trail))
			return fmt.Sprintf("%s %d %d %d %d", hx(a), plenccore.SizeVarInt(v), plenccore.ZigZag(v), rv, rn)
		})
	case "zag":
		v, ok := atoiU(arg(1))
		if !ok {
			return "bad-op"
		}
		return guard(func() string {
			z := plenccore.ZagZig(v)
			return fmt.Sprintf("%d %d", z, plenccore.ZigZag(z))
		})
	case "readu":
		d, err := unhx(arg(1))
		if err != nil {
			return "bad-op"
		}
		return guard(func() string {
			v, n := plenccore.ReadVarUint(d)
			return fmt.Sprintf("%d %d", v, n)
		})
	case "tag":
		wt, ok1 := atoiU(arg(1))
		idx, ok2 := atoiU(arg(2))
		trail, err := unhx(arg(3))
		if !ok1 || !ok2 || err != nil {
			return "bad-op"
		}
		return guard(func() string {
			a := plenccore.AppendTag(nil, plenccore.WireType(wt), int(idx))
			rwt, ridx, rn := plenccore.ReadTag(cat(a, trail))
			return fmt.Sprintf("%s %d %d %d %d", hx(a), plenccore.SizeTag(plenccore.WireType(wt), int(idx)), rwt, ridx, rn)
		})
	case "readtag":
		d, err := unhx(arg(1))
		if err != nil {
			return "bad-op"
		}
		return guard(func() string {
			rwt, ridx, rn := plenccore.ReadTag(d)
			return fmt.Sprintf("%d %d %d", rwt, ridx, rn)
		})
	case "skip":
		wt, ok := atoiU(arg(1))
		d, err := unhx(arg(2))
		if !ok || err != nil {
			return "bad-op"
		}
		return guard(func() string {
			n, err := plenccore.Skip(d, plenccore.WireType(wt))
			if err != nil {
				return "err"
			}
			return fmt.Sprintf("ok %d", n)
		})
	case "skipwf":
		wt, ok := atoiU(arg(1))
		d, err := unhx(arg(2))
		tr, err2 := unhx(arg(3))
		if !ok || err != nil || err2 != nil {
			return "bad-op"
		}
		return guard(func() string {
			n, err := plenccore.Skip(cat(d, tr), plenccore.WireType(wt))
			if err != nil {
				return "err"
			}
			return fmt.Sprintf("ok %d", n)
		})
	case "build":
		c, err := parseCtx(s)
		if err != nil {
			return "bad-op " + err.Error()
		}
		return guard(func() string {
			cd, err := c.codec()
			if err != nil {
				return "err"
			}
			d, ok := atoiU(arg(4))
			if !ok {
				d = 99
			}
			return "ok " + renderCodecD(cd, int(d))
		})
	case "enc":
		c, err := parseCtx(s)
		if err != nil {
			return "bad-op " + err.Error()
		}
		v, err := parseVal(s.List[4])
		if err != nil {
			return "bad-op " + err.Error()
		}
		return guard(func() string {
			if _, err := c.codec(); err != nil {
				return "err"
			}
			pv, err := c.newValue(v)
			if err != nil {
				return "bad-op " + err.Error()
			}
			data, err := c.marshalPtr(pv)
			if err != nil {
				return "err"
			}
			data = append([]byte(nil), data...)
			if c.tag == "" && !multiEntryMaps(v) {
				if c.rt.Kind() != reflect.Ptr {
					// the same bytes when the value is handed over by value
					if d2, err := c.p.Marshal(nil, pv.Elem().Interface()); err != nil || !bytes.Equal(d2, data) {
						return "byval-differs " + hx(data) + " " + hx(d2)
					}
				}
				if !containsNamedStruct(c.td) {
					// asking for the type's Descriptor in between changes nothing about the encoding
					if cd, err := c.codec(); err == nil {
						_ = cd.Descriptor()
						if d3, err := c.marshalPtr(pv); err != nil || !bytes.Equal(d3, data) {
							return "desc-changes-encoding " + hx(data) + " " + hx(d3)
						}
					}
				}
			}
			return "ok " + hx(data)
		})
	case "encm":
		return "ok"
	case "dec", "decdeep": // decdeep: the same on inputs nested deeper than the (cut) recursive type the model sees: oracle only
		lastDecValid = false
		c, err := parseCtx(s)
		if err != nil {
			return "bad-op " + err.Error()
		}
		data, err := unhx(arg(4))
		if err != nil {
			return "bad-op"
		}
		var prior *Val
		if len(s.List) > 5 && s.List[5].IsL {
			prior, err = parseVal(s.List[5])
			if err != nil {
				return "bad-op " + err.Error()
			}
		}
		return guard(func() string {
			if _, err := c.codec(); err != nil {
				return "builderr"
			}
			pv, err := c.newValue(prior)
			if err != nil {
				return "bad-op " + err.Error()
			}
			lastDecErr = ""
			if err := measureDecode(c, data, pv, prior); err != nil {
				lastDecErr = err.Error()
				// the chain of wrapped errors ends in an error that is not a wrapper, within as many steps as the message has parts
				steps := 0
				for e := err; e != nil && steps < 1<<22; e = errors.Unwrap(e) {
					steps++
				}
				lastDecErrChain = steps
				return "err"
			}
			lastHeaderMsg = badSliceHeaders(pv.Elem())
			return "ok " + FromReflect(pv.Elem(), c.td).String()
		})
	case "decm":
		// (decm cfg T tag V PRIOR): Unmarshal(Marshal(V)) into a target holding PRIOR
		c, err := parseCtx(s)
		if err != nil {
			return "bad-op " + err.Error()
		}
		v, err := parseVal(s.List[4])
		if err != nil {
			return "bad-op " + err.Error()
		}
		var prior *Val
		if len(s.List) > 5 && s.List[5].IsL {
			prior, err = parseVal(s.List[5])
			if err != nil {
				return "bad-op " + err.Error()
			}
		}
		return guard(func() string {
			if _, err := c.codec(); err != nil {
				return "builderr"
			}
			src, err := c.newValue(v)
			if err != nil {
				return "bad-op " + err.Error()
			}
			data, err := c.marshalPtr(src)
			if err != nil {
				return "err"
			}
			// (decm … PRIOR stale): the target's slices have stale elements in their spare capacity;
			// (decm … PRIOR stale0): additionally the target's top-level slice fields are cut to
			// length 0 (the `v = v[:0]` idiom) — the op's PRIOR is then what remains visible
			mode := ""
			if len(s.List) > 6 {
				mode = s.List[6].Atom
			}
			staleCapacity = mode == "stale" || mode == "stale0"
			var dst reflect.Value
			if mode == "stale0" && len(s.List) > 7 {
				full, perr := parseVal(s.List[7])
				if perr != nil {
					staleCapacity = false
					return "bad-op"
				}
				dst, err = c.newValue(full)
				if err == nil {
					truncateSlices(dst.Elem())
				}
			} else {
				dst, err = c.newValue(prior)
			}
			staleCapacity = false
			if err != nil {
				return "bad-op " + err.Error()
			}
			// (decm … PRIOR alias): equal pointer elements of the target's slices are made the SAME pointer
			// (values are trees in the model; real programs share); what the old elements pointed to must
			// not be written by the decode, since a re-used backing array is cleared first
			var watched []reflect.Value
			var before []string
			if mode == "alias" {
				aliasPointerSlices(dst.Elem(), &watched)
				for _, w := range watched {
					before = append(before, fmt.Sprintf("%#v", w.Elem().Interface()))
				}
			}
			if err := c.unmarshalPtr(data, dst); err != nil {
				return "err"
			}
			for i, w := range watched {
				if now := fmt.Sprintf("%#v", w.Elem().Interface()); now != before[i] {
					return "alias-written an element the target's slice used to point to was " + clip(before[i], 80) + " and is now " + clip(now, 80)
				}
			}
			lastHeaderMsg = badSliceHeaders(dst.Elem())
			return "ok " + FromReflect(dst.Elem(), c.td).String()
		})
	case "rt":
		c, err := parseCtx(s)
		if err != nil {
			return "bad-op " + err.Error()
		}
		v, err := parseVal(s.List[4])
		if err != nil {
			return "bad-op " + err.Error()
		}
		return guard(func() string {
			if _, err := c.codec(); err != nil {
				return "builderr"
			}
			pv, err := c.newValue(v)
			if err != nil {
				return "bad-op " + err.Error()
			}
			data, err := c.marshalPtr(pv)
			if err != nil {
				return "err"
			}
			out := reflect.New(c.rt)
			if err := c.unmarshalPtr(data, out); err != nil {
				return "err"
			}
			lastHeaderMsg = badSliceHeaders(out.Elem())
			res := FromReflect(out.Elem(), c.td).String()
			if c.tag == "" && c.rt.Kind() != reflect.Ptr {
				// the same value handed to Marshal by value (how it sits in the interface word differs by type shape)
				d2, err := c.p.Marshal(nil, pv.Elem().Interface())
				if err != nil {
					return "byval-err"
				}
				if !bytes.Equal(d2, data) {
					out2 := reflect.New(c.rt)
					if err := c.p.Unmarshal(d2, out2.Interface()); err != nil || FromReflect(out2.Elem(), c.td).String() != res {
						return "byval-differs " + hx(data) + " " + hx(d2)
					}
				}
			}
			return "ok " + res
		})
	case "app":
		// (app cfg T tag V xPREFIX cap mode): Marshal(prefix-with-spare-capacity, v), by pointer or by value, twice re-using the buffer
		c, err := parseCtx(s)
		if err != nil {
			return "bad-op " + err.Error()
		}
		v, err := parseVal(s.List[4])
		if err != nil {
			return "bad-op " + err.Error()
		}
		pre, err := unhx(arg(5))
		if err != nil {
			return "bad-op"
		}
		capExtra, _ := atoiU(arg(6))
		mode := arg(7)
		return guard(func() string {
			if _, err := c.codec(); err != nil {
				return "err"
			}
			pv, err := c.newValue(v)
			if err != nil {
				return "bad-op " + err.Error()
			}
			buf := make([]byte, len(pre), len(pre)+int(capExtra))
			copy(buf, pre)
			var iface interface{} = pv.Interface()
			if mode == "val" {
				iface = pv.Elem().Interface()
			}
			out, err := c.p.Marshal(buf, iface)
			if err != nil {
				return "err"
			}
			if c.tag == "" && !multiEntryMaps(v) && !containsNamedStruct(c.td) {
				// asking the codec for the type's Descriptor is a read-only act: the next Marshal writes the same bytes
				out = append([]byte(nil), out...)
				if cd, err := c.codec(); err == nil {
					_ = cd.Descriptor()
					buf2 := make([]byte, len(pre), len(pre)+int(capExtra))
					copy(buf2, pre)
					if out2, err := c.p.Marshal(buf2, iface); err != nil || !bytes.Equal(out2, out) {
						return "desc-changes-encoding " + hx(out) + " " + hx(out2)
					}
				}
			}
			return "ok " + hx(out)
		})
	case "mut":
		// (mut cfg T tag V1 V2): Marshal V1, change the SAME variable in place to V2 (maps keep their
		// identity, slices their backing array, pointers their pointee), Marshal again
		c, err := parseCtx(s)
		if err != nil {
			return "bad-op " + err.Error()
		}
		v1, e1 := parseVal(s.List[4])
		v2, e2 := parseVal(s.List[5])
		if e1 != nil || e2 != nil {
			return "bad-op"
		}
		return guard(func() string {
			if _, err := c.codec(); err != nil {
				return "builderr"
			}
			pv, err := c.newValue(v1)
			if err != nil {
				return "bad-op " + err.Error()
			}
			d1, err := c.marshalPtr(pv)
			if err != nil {
				return "err"
			}
			d1 = append([]byte(nil), d1...)
			if err := mutateInPlace(pv.Elem(), c.td, v2); err != nil {
				return "bad-op " + err.Error()
			}
			// the second call re-uses the first call's buffer, as an encode loop does (no sizing pass at the top)
			var d2 []byte
			if c.tag == "" {
				d2, err = c.p.Marshal(make([]byte, 0, len(d1)+1), pv.Interface())
			} else {
				d2, err = c.marshalPtr(pv)
			}
			if err != nil {
				return "err"
			}
			d2 = append([]byte(nil), d2...)
			d3, err := c.marshalPtr(pv)
			if err != nil {
				return "err"
			}
			if !bytes.Equal(d2, d3) && !multiEntryMaps(v2) {
				return "reuse-differs " + hx(d2) + " " + hx(d3)
			}
			return "ok " + hx(d1) + " " + hx(d2)
		})
	case "evolve":
		// (evolve cfg S S' V PRIOR)
		if len(s.List) != 6 {
			return "bad-op"
		}
		p, _, err := instance(s.List[1])
		if err != nil {
			return "bad-op " + err.Error()
		}
		td, e1 := parseTyDef(s.List[2])
		td2, e2 := parseTyDef(s.List[3])
		v, e3 := parseVal(s.List[4])
		if e1 != nil || e2 != nil || e3 != nil {
			return "bad-op"
		}
		var prior *Val
		if s.List[5].IsL {
			prior, err = parseVal(s.List[5])
			if err != nil {
				return "bad-op"
			}
		}
		return guard(func() string {
			rt1, e1 := td.RT()
			rt2, e2 := td2.RT()
			if e1 != nil || e2 != nil {
				return "bad-op rt"
			}
			if _, err := p.CodecForType(rt1); err != nil {
				return "builderr"
			}
			if _, err := p.CodecForType(rt2); err != nil {
				return "builderr"
			}
			src := reflect.New(rt1)
			if err := v.ToReflect(src.Elem(), td); err != nil {
				return "bad-op " + err.Error()
			}
			data, err := p.Marshal(nil, src.Interface())
			if err != nil {
				return "err"
			}
			dst := reflect.New(rt2)
			if prior != nil {
				if err := prior.ToReflect(dst.Elem(), td2); err != nil {
					return "bad-op " + err.Error()
				}
			}
			if err := p.Unmarshal(data, dst.Interface()); err != nil {
				return "err"
			}
			lastHeaderMsg = badSliceHeaders(dst.Elem())
			return "ok " + FromReflect(dst.Elem(), td2).String()
		})
	case "xdec", "xdecm":
		if (s.head() == "xdec" && len(s.List) != 5) || (s.head() == "xdecm" && len(s.List) < 6) {
			return "bad-op"
		}
		pe, _, e1 := instance(s.List[1])
		pd, _, e2 := instance(s.List[2])
		td, e3 := parseTyDef(s.List[3])
		v, e4 := parseVal(s.List[4])
		if e1 != nil || e2 != nil || e3 != nil || e4 != nil {
			return "bad-op"
		}
		return guard(func() string {
			rt, err := td.RT()
			if err != nil {
				return "bad-op rt"
			}
			if _, err := pe.CodecForType(rt); err != nil {
				return "builderr"
			}
			if _, err := pd.CodecForType(rt); err != nil {
				return "builderr"
			}
			src := reflect.New(rt)
			if err := v.ToReflect(src.Elem(), td); err != nil {
				return "bad-op " + err.Error()
			}
			data, err := pe.Marshal(nil, src.Interface())
			if err != nil {
				return "err"
			}
			dst := reflect.New(rt)
			if s.head() == "xdecm" {
				prior, perr := parseVal(s.List[5])
				if perr != nil {
					return "bad-op"
				}
				staleCapacity = len(s.List) > 6
				perr = prior.ToReflect(dst.Elem(), td)
				staleCapacity = false
				if perr != nil {
					return "bad-op " + perr.Error()
				}
			}
			if err := pd.Unmarshal(data, dst.Interface()); err != nil {
				return "err"
			}
			lastHeaderMsg = badSliceHeaders(dst.Elem())
			return "ok " + FromReflect(dst.Elem(), td).String()
		})
	case "laws":
		c, err := parseCtx(s)
		if err != nil {
			return "bad-op " + err.Error()
		}
		v, err := parseVal(s.List[4])
		if err != nil {
			return "bad-op " + err.Error()
		}
		tb, err := unhx(arg(5))
		if err != nil {
			return "bad-op"
		}
		return guard(func() string {
			cd, err := c.codec()
			if err != nil {
				return "builderr"
			}
			pv, err := c.newValue(v)
			if err != nil {
				return "bad-op " + err.Error()
			}
			ptr := pv.UnsafePointer()
			if c.rt.Kind() == reflect.Map {
				ptr = *(*unsafe.Pointer)(ptr)
			}
			body := cd.Append(nil, ptr, nil)
			out := reflect.New(c.rt)
			n, err := cd.Read(body, out.UnsafePointer(), cd.WireType())
			rd := fmt.Sprintf("ok %d", n)
			if err != nil {
				rd = "err"
			}
			return fmt.Sprintf("%d %s %d %s %s", cd.Size(ptr, nil), hx(body), cd.Size(ptr, tb), hx(cd.Append(nil, ptr, tb)), rd)
		})
	case "lawsz":
		// (lawsz cfg T tag N xTAG): Size == len(Append), without and with a tag, for a value too large for the
		// model or with many map entries (whose order is not fixed): N elements / entries; the kind of
		// value is taken from T: a slice gets N elements, a map N entries, inside one level of struct or not.
		c, err := parseCtx(s)
		if err != nil {
			return "bad-op " + err.Error()
		}
		n, err1 := strconv.Atoi(arg(4))
		tb, err2 := unhx(arg(5))
		if err1 != nil || err2 != nil || n < 0 || n > 100000 {
			return "bad-op"
		}
		return guard(func() string {
			cd, err := c.codec()
			if err != nil {
				return "builderr"
			}
			pv := reflect.New(c.rt)
			fillN(pv.Elem(), n)
			ptr := pv.UnsafePointer()
			if c.rt.Kind() == reflect.Map {
				ptr = *(*unsafe.Pointer)(ptr)
			}
			b1, b2 := cd.Append(nil, ptr, nil), cd.Append(nil, ptr, tb)
			res := fmt.Sprintf("ok %d %d %d %d", cd.Size(ptr, nil), len(b1), cd.Size(ptr, tb), len(b2))
			// nested one level down, the enclosing length prefix must let the data be read back
			data, err := c.p.Marshal(nil, pv.Interface())
			if err != nil {
				return res + " marshal-err"
			}
			back := reflect.New(c.rt)
			if err := c.p.Unmarshal(data, back.Interface()); err != nil {
				return res + " unmarshal-err"
			}
			if !sameModuloNil(back.Elem(), pv.Elem()) {
				return res + " differs"
			}
			return res + " same"
		})
	}
	return "bad-op unknown " + h
}

// upperCodec: a codec for a string type that writes the text in upper case and does not implement Interner
type upperCodec struct{}

func (upperCodec) Omit(ptr unsafe.Pointer) bool { return len(*(*string)(ptr)) == 0 }
func (upperCodec) Size(ptr unsafe.Pointer, tag []byte) int {
	return plenccodec.StringCodec{}.Size(ptr, tag)
}
func (upperCodec) Append(data []byte, ptr unsafe.Pointer, tag []byte) []byte {
	u := strings.ToUpper(*(*string)(ptr))
	return plenccodec.StringCodec{}.Append(data, unsafe.Pointer(&u), tag)
}
func (upperCodec) Read(data []byte, ptr unsafe.Pointer, wt plenccore.WireType) (int, error) {
	return plenccodec.StringCodec{}.Read(data, ptr, wt)
}
func (upperCodec) New() unsafe.Pointer               { return unsafe.Pointer(new(string)) }
func (upperCodec) WireType() plenccore.WireType      { return plenccore.WTLength }
func (upperCodec) Descriptor() plenccodec.Descriptor { return plenccodec.StringCodec{}.Descriptor() }

// sameModuloNil: deep equality in which a nil pointer equals a pointer to the zero value
func sameModuloNil(a, b reflect.Value) bool {
	switch a.Kind() {
	case reflect.Ptr:
		if a.IsNil() && b.IsNil() {
			return true
		}
		za, zb := a, b
		if a.IsNil() {
			za = reflect.New(a.Type().Elem())
		}
		if b.IsNil() {
			zb = reflect.New(b.Type().Elem())
		}
		return sameModuloNil(za.Elem(), zb.Elem())
	case reflect.Struct:
		if a.Type() == timeType {
			return a.Interface().(time.Time).Equal(b.Interface().(time.Time))
		}
		for i := 0; i < a.NumField(); i++ {
			if a.Type().Field(i).IsExported() && !sameModuloNil(a.Field(i), b.Field(i)) {
				return false
			}
		}
		return true
	case reflect.Slice:
		if a.Len() != b.Len() {
			return false
		}
		for i := 0; i < a.Len(); i++ {
			if !sameModuloNil(a.Index(i), b.Index(i)) {
				return false
			}
		}
		return true
	case reflect.Map:
		if a.Len() != b.Len() {
			return false
		}
		for _, k := range a.MapKeys() {
			bv := b.MapIndex(k)
			if !bv.IsValid() || !sameModuloNil(a.MapIndex(k), bv) {
				return false
			}
		}
		return true
	}
	return reflect.DeepEqual(a.Interface(), b.Interface())
}

// fillN: every slice reachable through struct fields gets n elements, every map n entries (distinct
// small keys), scalars a non-zero value.
func fillN(rv reflect.Value, n int) {
	switch rv.Kind() {
	case reflect.Struct:
		if rv.Type() == timeType {
			rv.Set(reflect.ValueOf(time.Unix(1700000000, 5).UTC()))
			return
		}
		for i := 0; i < rv.NumField(); i++ {
			if rv.Type().Field(i).IsExported() {
				fillN(rv.Field(i), n)
			}
		}
	case reflect.Slice:
		s := reflect.MakeSlice(rv.Type(), n, n)
		for i := 0; i < n; i++ {
			if rv.Type().Elem().Kind() == reflect.Ptr && i%3 == 1 && rv.Type().Elem().Elem().Kind() == reflect.Struct {
				continue // a nil entry among pointers to structs (reads back as a pointer to the zero value)
			}
			fillN(s.Index(i), 1)
		}
		rv.Set(s)
	case reflect.Map:
		m := reflect.MakeMapWithSize(rv.Type(), n)
		for i := 0; i < n; i++ {
			k := reflect.New(rv.Type().Key()).Elem()
			switch k.Kind() {
			case reflect.String:
				k.SetString(fmt.Sprintf("k%d", i))
			case reflect.Int, reflect.Int32, reflect.Int64:
				k.SetInt(int64(i + 1))
			case reflect.Uint, reflect.Uint32, reflect.Uint64:
				k.SetUint(uint64(i + 1))
			default:
				fillN(k, 1)
			}
			v := reflect.New(rv.Type().Elem()).Elem()
			fillN(v, 1)
			m.SetMapIndex(k, v)
		}
		rv.Set(m)
	case reflect.Ptr:
		p := reflect.New(rv.Type().Elem())
		fillN(p.Elem(), n)
		rv.Set(p)
	case reflect.String:
		rv.SetString("ab")
	case reflect.Bool:
		rv.SetBool(true)
	case reflect.Int, reflect.Int8, reflect.Int16, reflect.Int32, reflect.Int64:
		rv.SetInt(3)
	case reflect.Uint, reflect.Uint8, reflect.Uint16, reflect.Uint32, reflect.Uint64:
		rv.SetUint(3)
	case reflect.Float32, reflect.Float64:
		rv.SetFloat(1.5)
	}
}

// truncateSlices cuts the slice itself (top level) or every slice-typed field of a
// struct (one level) to length 0, keeping capacity and contents.
func truncateSlices(rv reflect.Value) {
	cut := func(f reflect.Value) {
		if f.Kind() == reflect.Slice && !f.IsNil() && f.CanSet() {
			f.Set(f.Slice(0, 0))
		}
	}
	switch rv.Kind() {
	case reflect.Slice:
		cut(rv)
	case reflect.Struct:
		for i := 0; i < rv.NumField(); i++ {
			if rv.Type().Field(i).IsExported() {
				cut(rv.Field(i))
			}
		}
	}
}

// aliasPointerSlices: in every slice of pointers reachable from rv, elements whose pointees are
// equal to the first element's are replaced by the first element's pointer; all element pointers
// are collected in watched.
func aliasPointerSlices(rv reflect.Value, watched *[]reflect.Value) {
	switch rv.Kind() {
	case reflect.Ptr:
		if !rv.IsNil() {
			aliasPointerSlices(rv.Elem(), watched)
		}
	case reflect.Struct:
		if rv.Type() == timeType {
			return
		}
		for i := 0; i < rv.NumField(); i++ {
			if rv.Type().Field(i).IsExported() {
				aliasPointerSlices(rv.Field(i), watched)
			}
		}
	case reflect.Map:
		// map values are not addressable: leave them
	case reflect.Slice:
		if rv.Type().Elem().Kind() == reflect.Ptr && rv.Type().Elem().Elem().Kind() != reflect.Ptr {
			var first reflect.Value
			for i := 0; i < rv.Len(); i++ {
				e := rv.Index(i)
				if e.IsNil() {
					continue
				}
				if !first.IsValid() {
					first = e
				} else if reflect.DeepEqual(first.Elem().Interface(), e.Elem().Interface()) {
					e.Set(first)
				}
				*watched = append(*watched, reflect.ValueOf(e.Interface()))
			}
			return
		}
		for i := 0; i < rv.Len(); i++ {
			aliasPointerSlices(rv.Index(i), watched)
		}
	}
}

// mutateInPlace overwrites the value held in rv with v, keeping identities where Go
// programs usually do: a non-nil map is emptied and refilled (same map object), a
// slice re-uses its backing array when it is large enough, a non-nil pointer keeps
// its pointee.
func mutateInPlace(rv reflect.Value, t *TyDef, v *Val) error {
	switch t.K {
	case "named":
		if t.Elem.K == "time" {
			return nil
		}
		return mutateInPlace(rv, t.Elem, v)
	case "struct":
		j := 0
		for i, f := range t.Fields {
			if !fieldEncoded(f) {
				continue
			}
			if j >= len(v.L) {
				return fmt.Errorf("struct value too short")
			}
			if err := mutateInPlace(rv.Field(i), f.T, v.L[j]); err != nil {
				return err
			}
			j++
		}
		return nil
	case "ptr":
		if v.P == nil || rv.IsNil() {
			return v.ToReflect(rv, t)
		}
		return mutateInPlace(rv.Elem(), t.Elem, v.P)
	case "map":
		if v.K == "mn" || rv.IsNil() {
			return v.ToReflect(rv, t)
		}
		for _, k := range rv.MapKeys() {
			rv.SetMapIndex(k, reflect.Value{})
		}
		for _, e := range v.M {
			k := reflect.New(rv.Type().Key()).Elem()
			if err := e[0].ToReflect(k, t.Key); err != nil {
				return err
			}
			x := reflect.New(rv.Type().Elem()).Elem()
			if err := e[1].ToReflect(x, t.Elem); err != nil {
				return err
			}
			rv.SetMapIndex(k, x)
		}
		return nil
	case "slice":
		if v.K == "y" || rv.IsNil() || rv.Cap() < len(v.L) || len(v.L) == 0 {
			return v.ToReflect(rv, t)
		}
		rv.Set(rv.Slice(0, len(v.L)))
		for i, e := range v.L {
			rv.Index(i).Set(reflect.Zero(rv.Type().Elem()))
			if err := e.ToReflect(rv.Index(i), t.Elem); err != nil {
				return err
			}
		}
		return nil
	}
	return v.ToReflect(rv, t)
}

var longInner = Struct(F("A", "1", B("int")), F("B", "2", B("str")))

// longTypes: the repeating wire forms, by name (declong).
var longTypes = map[string]*TyDef{
	"strs":    Struct(F("S", "1", Slice(B("str")))),
	"structs": Struct(F("S", "1", Slice(longInner))),
	"ptrs":    Struct(F("S", "1", Slice(Ptr(longInner)))),
	"ints":    Struct(F("S", "1", Slice(B("int")))),
	"f64s":    Struct(F("S", "1", Slice(B("f64")))),
	"bytess":  Struct(F("S", "1", Slice(Slice(B("uint8"))))),
	"map":     Struct(F("M", "1", Map(B("int"), B("str")))),
	"pmap":    Struct(&FieldDef{Name: "M", Exported: true, Plenc: "1,proto", T: Map(B("int"), B("int"))}),
	"pstrs":   Struct(&FieldDef{Name: "S", Exported: true, Plenc: "1,proto", T: Slice(B("str"))}),
}
