package main

import (
	"fmt"
	"math"
	"reflect"
)

// Gen produces type definitions and values. All randomness comes from r.
type Gen struct {
	r            *RNG
	proto        bool // ProtoCompatibleArrays is set on the instance the type is for
	bigBodies    int  // two-megabyte boundary bodies generated so far
	ptrSlices    bool // under proto: also generate fields that are pointers to slices of length-delimited elements
	noProtoTag   bool // do not attach the proto tag option
	finiteFloats bool // no NaN / Inf values
	noNarrowFlat bool // the flat option only on int / int64
	stats        map[string]int
}

func (g *Gen) count(k string) { g.stats[k]++ }

var intKinds = []string{"int", "int8", "int16", "int32", "int64"}
var uintKinds = []string{"uint", "uint8", "uint16", "uint32", "uint64"}

func named(name string) *TyDef { return FromRT(staticTypes[name], 6) }

// varint-encoded scalar (WTVarInt)
func (g *Gen) vtype() *TyDef {
	switch g.r.Intn(12) {
	case 0:
		return B("bool")
	case 1, 2, 3, 4:
		return B(intKinds[g.r.Intn(5)])
	case 5, 6, 7:
		return B(uintKinds[g.r.Intn(5)])
	case 8:
		return named(g.r.Pick("MyInt", "MyInt8", "MyI16", "MyI32", "MyI64", "MyU8", "MyU16", "MyU32", "MyU64", "MyUint", "MyBool"))
	case 9:
		return Ptr(B(intKinds[g.r.Intn(5)]))
	case 10:
		return Ptr(B(g.r.Pick("bool", "uint8", "uint64")))
	}
	return B("int")
}

// vtypeElem: a varint-kind slice element ([]MyU8 is a byte-kinded slice that is
// not []byte: packed varints; both sides render it as a list).
func (g *Gen) vtypeElem() *TyDef { return g.vtype() }

func (g *Gen) ftype() *TyDef {
	switch g.r.Intn(5) {
	case 0, 1:
		return B("f32")
	case 2, 3:
		return B("f64")
	}
	return named(g.r.Pick("MyF64", "MyF32"))
}

// length-delimited type (WTLength), not a slice wrapper
func (g *Gen) ltype(depth int) *TyDef {
	n := 8
	if depth <= 0 {
		n = 5
	}
	switch g.r.Intn(n) {
	case 0, 1:
		return B("str")
	case 2:
		return Slice(B("uint8")) // []byte
	case 3:
		return &TyDef{K: "time"}
	case 4:
		return named("MyStr")
	case 5, 6:
		return g.structType(depth - 1)
	}
	inner := g.ltype(depth - 1)
	if inner.K == "ptr" {
		return inner // no **T (known finding D15)
	}
	return Ptr(inner)
}

func (g *Gen) keyType(depth int) *TyDef {
	switch g.r.Intn(10) {
	case 0, 1, 2:
		return B("str")
	case 3, 4:
		return B(intKinds[g.r.Intn(5)])
	case 5:
		return B(uintKinds[g.r.Intn(5)])
	case 6:
		return B("bool")
	case 7:
		return named(g.r.Pick("MyStr", "MyInt", "MyU16"))
	}
	// struct key with scalar fields (value equality in Go)
	n := 1 + g.r.Intn(3)
	var fs []*FieldDef
	for i := 0; i < n; i++ {
		var t *TyDef
		switch g.r.Intn(4) {
		case 0:
			t = B("str")
		case 1:
			t = B("bool")
		case 2:
			t = B(uintKinds[g.r.Intn(5)])
		default:
			t = B(intKinds[g.r.Intn(5)])
		}
		fs = append(fs, F(fmt.Sprintf("K%d", i), fmt.Sprint(i+1), t))
	}
	return Struct(fs...)
}

// sliceType: any accepted slice shape. field = the slice sits directly in a struct field.
func (g *Gen) sliceType(depth int, field bool) *TyDef {
	switch g.r.Intn(8) {
	case 0, 1:
		return Slice(g.vtypeElem())
	case 2:
		f := g.ftype()
		return Slice(f)
	case 3:
		// slice of packed slices: [][]int, [][]float64, [][]byte
		if g.proto && !field {
			return Slice(g.vtypeElem())
		}
		switch g.r.Intn(3) {
		case 0:
			return Slice(Slice(g.vtypeElem()))
		case 1:
			return Slice(Slice(g.ftype()))
		}
		return Slice(Slice(B("uint8")))
	case 4:
		return named(g.r.Pick("MyInts", "MyBytes"))
	}
	// slice of length-delimited elements: WTSlice form, or repeated form under proto
	if g.proto && !field {
		return Slice(g.vtypeElem()) // ProtoSliceWrapper outside a field: known finding D10
	}
	if g.r.P(10) {
		return named("MyStrs")
	}
	return Slice(g.ltype(depth))
}

// valueType: anything that may sit in a map value / pointer target / top level
func (g *Gen) valueType(depth int) *TyDef {
	switch g.r.Intn(10) {
	case 0, 1, 2:
		return g.vtype()
	case 3:
		return g.ftype()
	case 4, 5, 6:
		return g.ltype(depth)
	}
	return g.sliceType(depth, false)
}

type fieldChoice struct {
	t   *TyDef
	opt string
}

func (g *Gen) fieldType(depth int) fieldChoice {
	switch g.r.Intn(14) {
	case 0, 1, 2:
		t := g.vtype()
		if u := t.under(); len(u.K) >= 3 && u.K[:3] == "int" && g.r.P(35) && !(g.noNarrowFlat && bitsOf(u.K) < 64) {
			g.count("opt.flat")
			return fieldChoice{t, "flat"}
		}
		// a tag option passes through a pointer to the element's codec
		if t.K == "ptr" {
			if u := t.Elem.under(); len(u.K) >= 3 && u.K[:3] == "int" && g.r.P(40) && !(g.noNarrowFlat && bitsOf(u.K) < 64) {
				g.count("opt.flat-ptr")
				return fieldChoice{t, "flat"}
			}
		}
		return fieldChoice{t, ""}
	case 3:
		return fieldChoice{g.ftype(), ""}
	case 4, 5, 6:
		t := g.ltype(depth)
		if u := t.under(); u.K == "str" && g.r.P(40) {
			g.count("opt.intern")
			return fieldChoice{t, "intern"}
		}
		return fieldChoice{t, ""}
	case 7, 8, 9:
		t := g.sliceType(depth, true)
		// (a tag option on a plain []byte silently selects the packed-varint
		// wrapper instead of BytesCodec: outside the documented format, not generated)
		if g.r.P(20) && !t.isBytes() && !g.noProtoTag {
			g.count("opt.proto-slice")
			return fieldChoice{t, "proto"}
		}
		return fieldChoice{t, ""}
	case 10, 11:
		if depth <= 0 {
			return fieldChoice{B("str"), ""}
		}
		m := Map(g.keyType(depth-1), g.mapValueType(depth-1))
		if g.r.P(20) && !g.noProtoTag {
			g.count("opt.proto-map")
			return fieldChoice{m, "proto"}
		}
		if g.r.P(8) {
			return fieldChoice{named("MyMap"), ""}
		}
		return fieldChoice{m, ""}
	case 12:
		if g.proto {
			if g.ptrSlices {
				// the pointer is transparent: the field's tag reaches the slice codec, so the slice is in field position
				// (a pointer to an EMPTY such slice is finding F13)
				return fieldChoice{Ptr(g.sliceType(depth, true)), ""}
			}
			return fieldChoice{g.vtype(), ""}
		}
		return fieldChoice{Ptr(g.sliceType(depth, false)), ""}
	}
	return fieldChoice{g.vtype(), ""}
}

func (g *Gen) mapValueType(depth int) *TyDef {
	return g.valueType(depth)
}

var fieldIndexPool = []int{0, 1, 2, 3, 4, 5, 6, 7, 15, 16, 17, 127, 128, 2047, 2048, 5000}

func (g *Gen) structType(depth int) *TyDef {
	n := g.r.Intn(6)
	if depth <= 0 && n > 3 {
		n = 3
	}
	used := map[int]bool{}
	var fs []*FieldDef
	for i := 0; i < n; i++ {
		name := fmt.Sprintf("F%d", i)
		// skipped fields: unexported, or "-"
		if g.r.P(8) {
			fs = append(fs, &FieldDef{Name: fmt.Sprintf("u%d", i), Exported: false, Plenc: g.r.Pick("", "1", "-"), T: B(g.r.Pick("int", "str"))})
			g.count("field.unexported")
			continue
		}
		if g.r.P(6) {
			fs = append(fs, &FieldDef{Name: name, Exported: true, Plenc: "-", T: B(g.r.Pick("int", "str", "f64"))})
			g.count("field.dash")
			continue
		}
		var idx int
		for {
			if g.r.P(70) {
				idx = 1 + g.r.Intn(8)
			} else {
				idx = fieldIndexPool[g.r.Intn(len(fieldIndexPool))]
			}
			if !used[idx] {
				break
			}
		}
		used[idx] = true
		fc := g.fieldType(depth)
		tag := fmt.Sprint(idx)
		if fc.opt != "" {
			tag += "," + fc.opt
		}
		f := &FieldDef{Name: name, Exported: true, Plenc: tag, T: fc.t}
		if g.r.P(20) {
			f.JSON = g.r.Pick("j"+name, "jn,omitempty", ",omitempty", "-")
		}
		fs = append(fs, f)
	}
	return Struct(fs...)
}

func (g *Gen) topType(depth int) *TyDef {
	switch g.r.Intn(10) {
	case 0:
		// (a top-level pointer type is known finding F01: nil reads back as a pointer to zero)
		t := g.valueType(depth)
		for t.K == "ptr" {
			t = t.Elem
		}
		return t
	case 1:
		if depth > 0 {
			return Map(g.keyType(depth-1), g.mapValueType(depth-1))
		}
	case 2:
		return named(g.r.Pick("Rec", "MutA", "MutB", "RecMap", "Inner", "Outer", "Emb"))
	}
	return g.structType(depth)
}

// ---- values ---------------------------------------------------------------

var u64Bounds []uint64
var i64Bounds []int64

func init() {
	seen := map[uint64]bool{}
	add := func(v uint64) {
		if !seen[v] {
			seen[v] = true
			u64Bounds = append(u64Bounds, v)
		}
	}
	for k := uint(0); k < 64; k++ {
		add(1 << k)
		add(1<<k - 1)
		add(1<<k + 1)
	}
	add(0)
	add(math.MaxUint64)
	add(math.MaxUint64 - 1)
	for _, u := range u64Bounds {
		i64Bounds = append(i64Bounds, int64(u), -int64(u), int64(u>>1), -int64(u>>1)-1)
	}
}

func (g *Gen) u64() uint64 {
	switch g.r.Intn(10) {
	case 0, 1:
		return 0
	case 2, 3, 4, 5:
		return u64Bounds[g.r.Intn(len(u64Bounds))]
	case 6:
		return uint64(g.r.Intn(300))
	}
	return g.r.U64() >> uint(g.r.Intn(64))
}

func (g *Gen) i64() int64 {
	switch g.r.Intn(10) {
	case 0, 1:
		return 0
	case 2, 3, 4, 5:
		return i64Bounds[g.r.Intn(len(i64Bounds))]
	case 6:
		return int64(g.r.Intn(300)) - 150
	}
	v := int64(g.r.U64() >> uint(g.r.Intn(64)))
	if g.r.Bool() {
		return -v
	}
	return v
}

var f64Specials = []uint64{0, 0x8000000000000000, 0x3FF0000000000000, 0xBFF0000000000000, 0x7FF0000000000000,
	0xFFF0000000000000, 0x7FF8000000000001, 0x7FF0000000000001, 1, 0x000FFFFFFFFFFFFF, 0x7FEFFFFFFFFFFFFF, 0x400921FB54442D18}
var f32Specials = []uint64{0, 0x80000000, 0x3F800000, 0xBF800000, 0x7F800000, 0xFF800000, 0x7FC00001, 0x7F800001, 1, 0x007FFFFF, 0x7F7FFFFF, 0x40490FDB}

func (g *Gen) strBytes() []byte {
	switch g.r.Intn(10) {
	case 0, 1, 2:
		return nil
	case 3:
		return []byte{0}
	case 4:
		return []byte(g.r.Pick("a", "ab", "hello", "\"q\\", "héllo", " ", "日本"))
	case 5:
		n := g.r.Pick("127", "128", "129", "300")
		l := map[string]int{"127": 127, "128": 128, "129": 129, "300": 300}[n]
		b := make([]byte, l)
		for i := range b {
			b[i] = byte('a' + i%26)
		}
		return b
	}
	return g.r.Bytes(g.r.Intn(6))
}

func bitsOf(k string) int {
	switch k {
	case "int8", "uint8":
		return 8
	case "int16", "uint16":
		return 16
	case "int32", "uint32":
		return 32
	}
	return 64
}

// Value generates a value of t. depth limits recursion through cut recursive types.
func (g *Gen) Value(t *TyDef, budget *int) *Val {
	*budget--
	small := *budget <= 0
	switch t.K {
	case "named":
		if t.Elem.K == "time" {
			return &Val{K: "r"}
		}
		return g.Value(t.Elem, budget)
	case "bool":
		return &Val{K: "b", B: g.r.Bool()}
	case "int", "int8", "int16", "int32", "int64":
		w := bitsOf(t.K)
		v := g.i64()
		if w < 64 {
			v = v << (64 - uint(w)) >> (64 - uint(w)) // sign-truncate into range
			if g.r.P(15) {
				v = -(1 << uint(w-1))
			} else if g.r.P(15) {
				v = 1<<uint(w-1) - 1
			}
		}
		return &Val{K: "i", I: v}
	case "uint", "uint8", "uint16", "uint32", "uint64":
		w := bitsOf(t.K)
		v := g.u64()
		if w < 64 {
			v &= 1<<uint(w) - 1
			if g.r.P(15) {
				v = 1<<uint(w) - 1
			}
		}
		return &Val{K: "u", U: v}
	case "f32":
		for {
			u := g.r.U64() & 0xFFFFFFFF
			if g.r.P(60) {
				u = f32Specials[g.r.Intn(len(f32Specials))]
			}
			if g.finiteFloats && u&0x7F800000 == 0x7F800000 {
				continue
			}
			return &Val{K: "f32", U: u}
		}
	case "f64":
		for {
			u := g.r.U64()
			if g.r.P(60) {
				u = f64Specials[g.r.Intn(len(f64Specials))]
			}
			if g.finiteFloats && u&0x7FF0000000000000 == 0x7FF0000000000000 {
				continue
			}
			return &Val{K: "f64", U: u}
		}
	case "str":
		return &Val{K: "s", Data: g.strBytes()}
	case "time":
		switch g.r.Intn(8) {
		case 0, 1:
			return &Val{K: "T", Sec: -62135596800, Nsec: 0} // time.Time{}
		case 2:
			return &Val{K: "T", Sec: 0, Nsec: 0}
		case 3:
			return &Val{K: "T", Sec: -1, Nsec: 999999999}
		case 4:
			return &Val{K: "T", Sec: -62135596800, Nsec: 1}
		}
		return &Val{K: "T", Sec: int64(g.r.U64()%(1<<33)) - (1 << 31), Nsec: int64(g.r.Intn(1000000000))}
	case "ext":
		if g.r.P(30) {
			return &Val{K: "p"}
		}
		if g.r.P(40) {
			return &Val{K: "p", P: zeroVal(extPayload[t.Name])}
		}
		return &Val{K: "p", P: g.Value(extPayload[t.Name], budget)}
	case "ptr":
		if small || g.r.P(30) || isCut(t.Elem) {
			return &Val{K: "p"}
		}
		if g.r.P(30) {
			return &Val{K: "p", P: zeroVal(t.Elem)}
		}
		return &Val{K: "p", P: g.Value(t.Elem, budget)}
	case "slice":
		if t.isBytes() {
			return &Val{K: "y", Data: g.strBytes()}
		}
		out := &Val{K: "l"}
		if small || g.r.P(25) || isCut(t.Elem) {
			return out
		}
		n := 1 + g.r.Intn(4)
		if g.r.P(5) {
			n = 130 // count needs a 2-byte varint
		}
		for i := 0; i < n; i++ {
			out.L = append(out.L, g.Value(t.Elem, budget))
		}
		return out
	case "map":
		if g.r.P(20) {
			return &Val{K: "mn"}
		}
		out := &Val{K: "m"}
		if small || g.r.P(15) {
			return out
		}
		n := 1 + g.r.Intn(3)
		seen := map[string]bool{}
		for i := 0; i < n; i++ {
			var k *Val
			if g.r.P(30) {
				k = zeroVal(t.Key)
			} else {
				k = g.Value(t.Key, budget)
			}
			ks := k.String()
			if seen[ks] {
				continue
			}
			seen[ks] = true
			var v *Val
			if g.r.P(25) {
				v = zeroVal(t.Elem)
			} else {
				v = g.Value(t.Elem, budget)
			}
			out.M = append(out.M, [2]*Val{k, v})
		}
		return out
	case "struct":
		out := &Val{K: "r"}
		for _, f := range t.Fields {
			if !fieldEncoded(f) {
				continue
			}
			if g.r.P(20) {
				out.L = append(out.L, zeroVal(f.T))
			} else {
				out.L = append(out.L, g.Value(f.T, budget))
			}
		}
		return out
	}
	panic("Value: kind " + t.K)
}

// isCut: a recursive static struct cut at the unfolding depth (no fields listed
// although the Go type has some): values must not descend into it.
func isCut(t *TyDef) bool {
	t = t.under()
	if t.K == "struct" && t.Name != "" && len(t.Fields) == 0 {
		if st, ok := staticTypes[t.Name]; ok && st.Kind() == reflect.Struct && st.NumField() > 0 {
			return true
		}
	}
	return false
}

func zeroVal(t *TyDef) *Val {
	switch t.K {
	case "named":
		if t.Elem.K == "time" {
			return &Val{K: "r"}
		}
		return zeroVal(t.Elem)
	case "bool":
		return &Val{K: "b"}
	case "int", "int8", "int16", "int32", "int64":
		return &Val{K: "i"}
	case "uint", "uint8", "uint16", "uint32", "uint64":
		return &Val{K: "u"}
	case "f32", "f64":
		return &Val{K: t.K}
	case "str":
		return &Val{K: "s"}
	case "time":
		return &Val{K: "T", Sec: -62135596800}
	case "ptr", "ext":
		return &Val{K: "p"}
	case "slice":
		if t.isBytes() {
			return &Val{K: "y"}
		}
		return &Val{K: "l"}
	case "map":
		return &Val{K: "mn"}
	case "struct":
		out := &Val{K: "r"}
		for _, f := range t.Fields {
			if fieldEncoded(f) {
				out.L = append(out.L, zeroVal(f.T))
			}
		}
		return out
	}
	panic("zeroVal: " + t.K)
}
