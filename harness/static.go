package main

import (
	"reflect"
	"time"
)

// Static corpus of named, recursive and mutually recursive types: shapes that
// reflect.StructOf cannot build.

type MyInt int
type MyInt8 int8
type MyU16 uint16
type MyU64 uint64
type MyI16 int16
type MyI32 int32
type MyI64 int64
type MyU8 uint8
type MyU32 uint32
type MyUint uint
type MyStr string
type MyBool bool
type MyF64 float64
type MyF32 float32
type MyBytes []byte
type MyTime time.Time
type MyStrs []string
type MyInts []int32
type MyMap map[string]int

type Rec struct {
	V    int    `plenc:"1"`
	Next *Rec   `plenc:"2"`
	Kids []Rec  `plenc:"3"`
	S    string `plenc:"4" json:"s,omitempty"`
}

type MutA struct {
	B *MutB  `plenc:"1"`
	X string `plenc:"2"`
}

type MutB struct {
	A  *MutA  `plenc:"1"`
	As []MutA `plenc:"2"`
	N  int8   `plenc:"3"`
}

type RecMap struct {
	M map[string]RecMap `plenc:"1"`
	P *RecMap           `plenc:"5"`
	F float64           `plenc:"2"`
}

type Inner struct {
	A MyInt   `plenc:"1"`
	B MyStr   `plenc:"2,intern"`
	C MyBytes `plenc:"3"`
	d int
	E MyTime `plenc:"4"`
	G MyStrs `plenc:"6"`
	H MyInts `plenc:"7"`
}

type Outer struct {
	I  Inner            `plenc:"1"`
	PI *Inner           `plenc:"2"`
	Is []Inner          `plenc:"3"`
	M  map[MyStr]Inner  `plenc:"4"`
	K  map[Inner2]MyInt `plenc:"5"`
	Z  MyMap            `plenc:"6"`
}

type Inner2 struct {
	X int    `plenc:"1"`
	Y string `plenc:"2"`
}

// families whose construction FAILS part-way through a recursive definition
// (an untagged exported field after the self reference)
type BadRec struct {
	Next *BadRec  `plenc:"1"`
	Kids []BadRec `plenc:"2"`
	X    int
}

type GoodViaBad struct {
	B *BadHolder `plenc:"1"`
	V int        `plenc:"2"`
}

type BadHolder struct {
	G *GoodViaBad         `plenc:"1"`
	M map[string]*BadRec2 `plenc:"2"`
	X int
}

type BadRec2 struct {
	Self *BadRec2 `plenc:"1"`
	Dup1 int      `plenc:"2"`
	Dup2 int      `plenc:"2"`
}

// embedded (anonymous) fields: an exported embedded type is an ordinary field named
// after its type; an unexported embedded type is skipped like any unexported field
type embHidden struct {
	H int `plenc:"1"`
}

type Emb struct {
	Inner2 `plenc:"1"`
	*Inner `plenc:"2"`
	embHidden
	X     int `plenc:"3"`
	MyStr `plenc:"4,intern"`
}

// same codec used by several goroutines at once (decode scratch state)
type ProtoMapHolder struct {
	A int             `plenc:"1"`
	M map[int64]int64 `plenc:"2,proto"`
	K map[Inner2]int  `plenc:"3,proto"`
	P map[string]int  `plenc:"4"`
}

// construction fails at a field of an unsupported kind (the failing lookup reaches the registry)
type BadKindRec struct {
	Next *BadKindRec  `plenc:"1"`
	Kids []BadKindRec `plenc:"2"`
	C    complex128   `plenc:"3"`
}

type GoodViaBadKind struct {
	B *BadKindHolder `plenc:"1"`
	V int            `plenc:"2"`
}

type BadKindHolder struct {
	G *GoodViaBadKind        `plenc:"1"`
	M map[string]*BadKindRec `plenc:"2"`
	C chan int               `plenc:"3"`
}

// self-referential defined types without a struct in the cycle (finding F11)
type PSelf *PSelf
type SSelf []SSelf
type MSelf map[string]MSelf
type PSelfA *PSelfB
type PSelfB []PSelfA
type SSelfHolder struct {
	A int   `plenc:"1"`
	S SSelf `plenc:"2"`
}

// every codec family in one struct, for steady-state concurrent use (race mode); not
// part of the generators' corpus
type Steady struct {
	T  time.Time            `plenc:"1"`
	Ts []time.Time          `plenc:"2"`
	PT *time.Time           `plenc:"3"`
	S  string               `plenc:"4"`
	I  Inner2               `plenc:"5"`
	L  []Inner2             `plenc:"6"`
	F  []float64            `plenc:"7"`
	M  map[string]time.Time `plenc:"8"`
	N  []string             `plenc:"9"`
	B  []byte               `plenc:"10"`
	IS string               `plenc:"11,intern"`
	PM map[string]Inner2    `plenc:"12,proto"`
	PL *[]string            `plenc:"13"`
	U  []uint32             `plenc:"14"`
	FI int64                `plenc:"15,flat"`
}

// instantiated generic struct types (reflect cannot build these): the type name carries the arguments
type Page[T any] struct {
	Items []T `plenc:"1"`
	Next  int `plenc:"2"`
}

type Pair[K comparable, V any] struct {
	K K `plenc:"1"`
	V V `plenc:"2"`
}

var staticTypes = map[string]reflect.Type{}

func regStatic(v interface{}) {
	t := reflect.TypeOf(v)
	staticTypes[t.Name()] = t
}

func init() {
	for _, v := range []interface{}{MyI16(0), MyI32(0), MyI64(0), MyU8(0), MyU32(0), MyUint(0), MyInt(0), MyInt8(0), MyU16(0), MyU64(0), MyStr(""), MyBool(false),
		MyF64(0), MyF32(0), MyBytes(nil), MyTime{}, MyStrs(nil), MyInts(nil), MyMap(nil),
		Rec{}, MutA{}, MutB{}, RecMap{}, Inner{}, Outer{}, Inner2{}, BadRec{}, GoodViaBad{}, BadHolder{}, BadRec2{}, ProtoMapHolder{}, PSelf(nil), SSelf(nil), MSelf(nil), PSelfA(nil), PSelfB(nil), SSelfHolder{}, BadKindRec{}, GoodViaBadKind{}, BadKindHolder{}, PoolMaps{}, Emb{}, Page[int]{}, Page[Inner2]{}, Pair[string, Page[int]]{}} {
		regStatic(v)
	}
}
