package main

import (
	"bytes"
	"fmt"
	"go/ast"
	"go/format"
	"go/parser"
	"go/token"
	"os"
	"os/exec"
	"path/filepath"
	"strconv"
	"strings"
	"unicode"
)

func init() { propRunners["C20"] = runC20 }

var plenctagBin string
var tagtoolDir string

func ensurePlenctag() error {
	if plenctagBin != "" {
		return nil
	}
	dir, err := os.MkdirTemp(os.Getenv("VERIF_WORK"), "tagtool")
	if err != nil {
		return err
	}
	tagtoolDir = dir
	bin := filepath.Join(dir, "plenctag")
	cmd := exec.Command("go", "build", "-o", bin, "github.com/philpearl/plenc/cmd/plenctag")
	cmd.Dir = harnessSrcDir()
	out, err := cmd.CombinedOutput()
	if err != nil {
		return fmt.Errorf("build plenctag: %v %s", err, out)
	}
	plenctagBin = bin
	return nil
}

func harnessSrcDir() string {
	if d := os.Getenv("VERIF_HARNESS_SRC"); d != "" {
		return d
	}
	return "/verif/harness"
}

// (tagtool J S P (st (fd (n xA xB) xEMB TAG)...)...): TAG = none | xHEX (content of a backquoted literal)
type ttField struct {
	names []string
	emb   string
	tag   *string
}

func parseTagtool(s *Sexp) (flags [3]bool, structs [][]ttField, err error) {
	for i := 0; i < 3; i++ {
		flags[i] = s.List[1+i].Atom == "1"
	}
	for _, st := range s.List[4:] {
		var fs []ttField
		for _, fd := range st.List[1:] {
			var f ttField
			for _, n := range fd.List[1].List[1:] {
				b, e := unhx(n.Atom)
				if e != nil {
					return flags, nil, e
				}
				f.names = append(f.names, string(b))
			}
			eb, e := unhx(fd.List[2].Atom)
			if e != nil {
				return flags, nil, e
			}
			f.emb = string(eb)
			if fd.List[3].Atom != "none" {
				tb, e := unhx(fd.List[3].Atom)
				if e != nil {
					return flags, nil, e
				}
				ts := string(tb)
				f.tag = &ts
			}
			fs = append(fs, f)
		}
		structs = append(structs, fs)
	}
	return
}

func renderGoFile(structs [][]ttField) string {
	var b strings.Builder
	// an unsorted import block and number literals in the forms gofmt rewrites: the tool's
	// output must be gofmt-formatted whatever the input looked like
	b.WriteString("package x\n\nimport (\n\t\"time\"\n\t\"strings\"\n\t\"os\"\n)\n\nconst (\n\tmaskX = 0XFF\n\tbigE  = 1E3\n\toct   = 0O17\n)\n\nvar _ = strings.ToUpper\nvar _ = os.Getenv\nvar _ time.Duration\n\n")
	for i, fs := range structs {
		fmt.Fprintf(&b, "type T%d struct {\n", i)
		for _, f := range fs {
			if len(f.names) == 0 {
				b.WriteString("\t" + f.emb)
			} else {
				b.WriteString("\t" + strings.Join(f.names, ", ") + " int")
			}
			if f.tag != nil {
				b.WriteString(" `" + *f.tag + "`")
			}
			b.WriteString("\n")
		}
		b.WriteString("}\n\n")
	}
	b.WriteString("type Inner struct{}\ntype other struct{}\n")
	// … and far from gofmt's layout: runs of blank lines (gofmt keeps one), so that the rewritten file is
	// SHORTER than the input it replaces
	b.WriteString(strings.Repeat("\n", 40) + "var   _    =    0\n" + strings.Repeat("\n", 25))
	return b.String()
}

// tagTable: per struct, per field: names and tag content
func tagTable(src []byte) (string, error) {
	fset := token.NewFileSet()
	f, err := parser.ParseFile(fset, "x.go", src, 0)
	if err != nil {
		return "", err
	}
	var parts []string
	for _, d := range f.Decls {
		gd, ok := d.(*ast.GenDecl)
		if !ok {
			continue
		}
		for _, sp := range gd.Specs {
			ts, ok := sp.(*ast.TypeSpec)
			if !ok || !strings.HasPrefix(ts.Name.Name, "T") {
				continue
			}
			st, ok := ts.Type.(*ast.StructType)
			if !ok {
				continue
			}
			s := "(st"
			for _, fl := range st.Fields.List {
				var names []string
				for _, n := range fl.Names {
					names = append(names, hxs(n.Name))
				}
				tag := "none"
				if fl.Tag != nil {
					v := fl.Tag.Value
					if len(v) >= 2 && v[0] == '`' {
						tag = hxs(v[1 : len(v)-1])
					} else if u, err := strconv.Unquote(v); err == nil {
						tag = hxs(u)
					}
				}
				ns := "(n"
				for _, n := range names {
					ns += " " + n
				}
				s += fmt.Sprintf(" (fd %s) %s)", ns, tag)
			}
			parts = append(parts, s+")")
		}
	}
	return strings.Join(parts, " "), nil
}

var tagtoolSeq int

func runPlenctag(flags [3]bool, src string) (out []byte, status string) {
	if err := ensurePlenctag(); err != nil {
		return nil, "bad-op " + err.Error()
	}
	tagtoolSeq++
	fn := filepath.Join(tagtoolDir, fmt.Sprintf("f%d.go", tagtoolSeq))
	if err := os.WriteFile(fn, []byte(src), 0o644); err != nil {
		return nil, "bad-op " + err.Error()
	}
	defer os.Remove(fn)
	cmd := exec.Command(plenctagBin, "-w=false", fmt.Sprintf("-json=%v", flags[0]), fmt.Sprintf("-sql=%v", flags[1]), fmt.Sprintf("-private=%v", flags[2]), fn)
	var so, se bytes.Buffer
	cmd.Stdout, cmd.Stderr = &so, &se
	err := cmd.Run()
	if err != nil {
		if ee, ok := err.(*exec.ExitError); ok && ee.ExitCode() == 1 {
			if strings.TrimSpace(se.String()) == "" {
				return nil, "crash exit status 1 without any message"
			}
			return nil, "err"
		}
		return nil, "crash " + strings.SplitN(se.String(), "\n", 2)[0]
	}
	return so.Bytes(), "ok"
}

// runPlenctagInPlace runs the tool in its default mode (-w) on a scratch file and returns the file afterwards.
func runPlenctagInPlace(flags [3]bool, src string) ([]byte, string) {
	tagtoolSeq++
	fn := filepath.Join(tagtoolDir, fmt.Sprintf("w%d.go", tagtoolSeq))
	fn2 := filepath.Join(tagtoolDir, fmt.Sprintf("w%db.go", tagtoolSeq)) // a second file in the same invocation
	if err := os.WriteFile(fn, []byte(src), 0o644); err != nil {
		return nil, "bad-op"
	}
	if err := os.WriteFile(fn2, []byte(src), 0o644); err != nil {
		return nil, "bad-op"
	}
	defer os.Remove(fn)
	defer os.Remove(fn2)
	cmd := exec.Command(plenctagBin, fmt.Sprintf("-json=%v", flags[0]), fmt.Sprintf("-sql=%v", flags[1]), fmt.Sprintf("-private=%v", flags[2]), fn, fn2)
	var so, se bytes.Buffer
	cmd.Stdout, cmd.Stderr = &so, &se
	if err := cmd.Run(); err != nil {
		return nil, "exit: " + strings.SplitN(se.String(), "\n", 2)[0]
	}
	if so.Len() != 0 {
		return nil, "printed to stdout in -w mode"
	}
	b, err := os.ReadFile(fn)
	if err != nil {
		return nil, "unreadable"
	}
	if b2, err := os.ReadFile(fn2); err != nil || !bytes.Equal(b, b2) {
		return nil, "the second file of the invocation was not rewritten like the first"
	}
	return b, "ok"
}

// plenctagUsage: with no file arguments the tool says so and exits 1.
func plenctagUsage() string {
	if err := ensurePlenctag(); err != nil {
		return "bad-op"
	}
	cmd := exec.Command(plenctagBin)
	var se bytes.Buffer
	cmd.Stderr = &se
	err := cmd.Run()
	ee, ok := err.(*exec.ExitError)
	if !ok || ee.ExitCode() != 1 || !strings.Contains(se.String(), "no files specified") {
		return fmt.Sprintf("with no arguments: err=%v stderr=%q", err, strings.SplitN(se.String(), "\n", 2)[0])
	}
	return ""
}

var lastTagtoolOracle []string

var usageChecked bool

func execTagtool(s *Sexp) string {
	lastTagtoolOracle = nil
	if !usageChecked {
		usageChecked = true
		if m := plenctagUsage(); m != "" && m != "bad-op" {
			lastTagtoolOracle = append(lastTagtoolOracle, m)
		}
	}
	flags, structs, err := parseTagtool(s)
	if err != nil {
		return "bad-op " + err.Error()
	}
	src := renderGoFile(structs)
	if _, err := parser.ParseFile(token.NewFileSet(), "x.go", src, 0); err != nil {
		return "unparseable"
	}
	out, status := runPlenctag(flags, src)
	if status != "ok" {
		if strings.HasPrefix(status, "crash") {
			lastTagtoolOracle = append(lastTagtoolOracle, "plenctag crashed: "+status)
		}
		return strings.Fields(status)[0]
	}
	tbl, err := tagTable(out)
	if err != nil {
		lastTagtoolOracle = append(lastTagtoolOracle, "output does not parse: "+err.Error())
		return "ok unparseable-output"
	}
	// oracle parts that need the output itself
	if fm, err := format.Source(out); err != nil || !bytes.Equal(fm, out) {
		lastTagtoolOracle = append(lastTagtoolOracle, "output is not gofmt-formatted")
	}
	out2, st2 := runPlenctag(flags, string(out))
	if st2 != "ok" || !bytes.Equal(out2, out) {
		lastTagtoolOracle = append(lastTagtoolOracle, "a second run changes the file")
	}
	// -w (the default mode): the file is rewritten in place with exactly what -w=false prints
	if wout, st := runPlenctagInPlace(flags, src); st != "ok" || !bytes.Equal(wout, out) {
		lastTagtoolOracle = append(lastTagtoolOracle, "writing in place (-w) gives a different result ("+st+") than printing (-w=false)")
	}
	before, _ := tagTable([]byte(src))
	lastTagtoolOracle = append(lastTagtoolOracle, tagtoolRules(flags, before, tbl)...)
	lastTagtoolOracle = append(lastTagtoolOracle, tagtoolEligibility(flags, s, tbl)...)
	return "ok " + tbl
}

// tagtoolRules: the property's rules evaluated on the before/after tag tables.
func tagtoolRules(flags [3]bool, before, after string) []string {
	var fails []string
	b, _ := parseSexp("(" + before + ")")
	a, _ := parseSexp("(" + after + ")")
	if b == nil || a == nil || len(b.List) != len(a.List) {
		return []string{"struct count changed"}
	}
	for si := range b.List {
		bf, af := b.List[si].List[1:], a.List[si].List[1:]
		if len(bf) != len(af) {
			fails = append(fails, "field count changed")
			continue
		}
		maxOld := 0
		oldIdx := map[int]bool{}
		for _, f := range bf {
			if idx, ok := plencIndexOf(f.List[2].Atom); ok {
				oldIdx[idx] = true
				if idx > maxOld {
					maxOld = idx
				}
			}
		}
		newSeen := map[int]bool{}
		for i := range bf {
			if bf[i].List[1].String() != af[i].List[1].String() {
				fails = append(fails, "field names changed")
			}
			bt, at := bf[i].List[2].Atom, af[i].List[2].Atom
			if _, had := plencIndexOf(bt); had || strings.Contains(tagText(bt), `plenc:"-"`) {
				if bt != at {
					fails = append(fails, "a field that already had a plenc tag was modified")
				}
				continue
			}
			if bt != "none" && at != "none" && !strings.HasPrefix(tagText(at), strings.TrimSpace(tagText(bt))) && strings.TrimSpace(tagText(bt)) != "" {
				// other keys must be kept (the tool re-renders the tag; prefix = the old keys in order)
				if !sameKeys(tagText(bt), tagText(at)) {
					fails = append(fails, "existing tag keys were not kept: "+tagText(bt)+" -> "+tagText(at))
				}
			}
			if idx, ok := plencIndexOf(at); ok {
				if idx <= maxOld {
					fails = append(fails, fmt.Sprintf("new index %d is not greater than the existing maximum %d", idx, maxOld))
				}
				if newSeen[idx] || oldIdx[idx] {
					fails = append(fails, fmt.Sprintf("index %d assigned twice", idx))
				}
				newSeen[idx] = true
			}
		}
	}
	return fails
}

func tagText(h string) string {
	if h == "none" {
		return ""
	}
	b, _ := unhx(h)
	return string(b)
}

func sameKeys(before, after string) bool {
	for _, kv := range strings.Fields(before) {
		if !strings.Contains(after, kv) {
			return false
		}
	}
	return true
}

// plencIndexOf: the numeric plenc index in a tag (hex content), if any
func plencIndexOf(h string) (int, bool) {
	t := tagText(h)
	i := strings.Index(t, `plenc:"`)
	if i < 0 {
		return 0, false
	}
	rest := t[i+7:]
	j := strings.IndexByte(rest, '"')
	if j < 0 {
		return 0, false
	}
	name := strings.SplitN(rest[:j], ",", 2)[0]
	n, err := strconv.Atoi(name)
	if err != nil {
		return 0, false
	}
	return n, true
}

func oracleTagtool(op *Sexp, res string) []string { return lastTagtoolOracle }

var ttTags = []string{`json:"a"`, `json:"-"`, `sql:"-"`, `json:"b,omitempty" sql:"c"`, `plenc:"1"`, `plenc:"3"`, `plenc:"7,flat"`, `plenc:"-"`,
	`json:"x" plenc:"2"`, `plenc:"12" json:"-"`, ``, ` `, `yaml:"q"`, `json:"a,omitempty"`, `db:"col" json:"-" sql:"-"`, `plenc:"0"`,
	`json:"a"`, `json:"-"`, `sql:"-"`, `plenc:"5"`, `plenc:"2,intern" json:"n"`, `xml:"e" json:"e"`, `plenc:"40"`, `json:"k"  sql:"k"`,
	`sql:"password_hash" json:"-"`, `plenc:"536870911"`, `plenc:"536870910"`, `plenc:"536870911" json:"top"`, `json:"-" sql:"col"`, `sql:"-" json:"shown"`, `json:"-,"`, `sql:"-,omitempty"`, `json:"a,"`,
	// indexes with leading zeros are decimal (strconv.Atoi), whatever they look like
	`plenc:"010"`, `plenc:"007,intern"`, `plenc:"0017"`, `plenc:"00"`}

// rare: malformed tags (the tool must report an error, not crash)
var ttBadTags = []string{`plenc:"x"`, `json:"unterminated`, `bad tag`, `plenc:`, `:"v"`, `plenc:"1" json`}

func (g *Gen) ttStruct() *Sexp {
	items := []*Sexp{A("st")}
	n := g.r.Intn(6)
	for i := 0; i < n; i++ {
		var names []*Sexp
		emb := ""
		switch g.r.Intn(16) {
		case 0:
			emb = g.r.Pick("Inner", "*Inner", "other", "time.Time", "*time.Duration", "os.FileMode")
		case 1:
			if !g.r.P(25) {
				names = []*Sexp{A(hxs(fmt.Sprintf("F%d", i)))}
				break
			}
			names = []*Sexp{A(hxs(fmt.Sprintf("A%d", i))), A(hxs(fmt.Sprintf("B%d", i)))}
		case 2:
			names = []*Sexp{A(hxs(fmt.Sprintf("p%d", i)))}
		case 3:
			names = []*Sexp{A(hxs(g.r.Pick(fmt.Sprintf("_u%d", i), "_", fmt.Sprintf("名前%d", i), fmt.Sprintf("_U%d", i))))}
		default:
			names = []*Sexp{A(hxs(fmt.Sprintf("F%d", i)))}
		}
		tag := "none"
		if g.r.P(60) {
			tag = hxs(ttTags[g.r.Intn(len(ttTags))])
		}
		if g.r.P(3) {
			tag = hxs(ttBadTags[g.r.Intn(len(ttBadTags))])
		}
		items = append(items, L(A("fd"), L(append([]*Sexp{A("n")}, names...)...), A(hxs(emb)), A(tag)))
	}
	return L(items...)
}

func runC20(r *Runner, g *Gen, tier string) string {
	n := scale(tier, 250, 40000)
	for i := 0; i < n; i++ {
		items := []*Sexp{A("tagtool"), A(g.r.Pick("0", "1")), A(g.r.Pick("0", "1", "1")), A(g.r.Pick("0", "1", "1"))}
		for k := 1 + g.r.Intn(3); k > 0; k-- {
			items = append(items, g.ttStruct())
		}
		r.Do(L(items...), true, "tagtool")
	}
	return "generated Go files with 1-3 structs of 0-5 fields: exported / unexported / underscore names, multi-name declarations, embedded fields (value, pointer, unexported type), existing / partial / malformed / blank / no tags incl. json:\"-\" and sql:\"-\", all flag combinations; op = run the real plenctag binary built from /repo (-w=false), parse its output with go/parser and print the per-field tag table; compared with the model's table; oracle: exit status instead of a crash, only tags differ, existing plenc tags and other keys kept, new indexes greater than every existing one and pairwise distinct, output gofmt-stable, second run changes nothing"
}

// tagtoolEligibility: which fields must gain a tag, and which one (from the op's
// own description of the input): a field without a plenc tag that is not left
// alone (unexported name or embedded type with the -private option) gains "-"
// when an enabled option names a key whose value is exactly "-", and an index
// when no enabled option's key is present with a "-" name at all ("-," forms are
// left to the model comparison).
func tagtoolEligibility(flags [3]bool, op *Sexp, after string) []string {
	a, _ := parseSexp("(" + after + ")")
	if a == nil {
		return nil
	}
	var fails []string
	structs := op.List[4:]
	if len(structs) != len(a.List) {
		return nil
	}
	keyVal := func(tag, key string) (string, bool) {
		i := strings.Index(tag, key+`:"`)
		if i < 0 || (i > 0 && tag[i-1] != ' ') {
			return "", false
		}
		rest := tag[i+len(key)+2:]
		j := strings.IndexByte(rest, '"')
		if j < 0 {
			return "", false
		}
		return rest[:j], true
	}
	for si, st := range structs {
		af := a.List[si].List[1:]
		fds := st.List[1:]
		if len(af) != len(fds) {
			continue
		}
		for i, fd := range fds {
			names := fd.List[1].List[1:]
			emb, _ := unhx(fd.List[2].Atom)
			tag := tagText(fd.List[3].Atom)
			if len(names) > 1 || strings.Contains(tag, "plenc:") {
				continue
			}
			name := strings.TrimLeft(string(emb), "*")
			if i := strings.LastIndexByte(name, '.'); i >= 0 {
				name = name[i+1:] // an embedded pkg.T is named T
			}
			if len(names) == 1 {
				b, _ := unhx(names[0].Atom)
				name = string(b)
			}
			if name == "" {
				continue
			}
			first := []rune(name)[0]
			lower := !unicode.IsUpper(first) // Go's rule: exported = upper-case first rune; _x and caseless scripts are not
			at := tagText(af[i].List[2].Atom)
			got, has := keyVal(at, "plenc")
			if flags[2] && lower {
				if has {
					fails = append(fails, "unexported field "+name+" was tagged although -private is set")
				}
				continue
			}
			sqlV, hasSQL := keyVal(tag, "sql")
			jsonV, hasJSON := keyVal(tag, "json")
			mustDash := (flags[1] && hasSQL && sqlV == "-") || (flags[0] && hasJSON && jsonV == "-")
			mayDash := (flags[1] && hasSQL && strings.HasPrefix(sqlV, "-")) || (flags[0] && hasJSON && strings.HasPrefix(jsonV, "-"))
			switch {
			case !has:
				fails = append(fails, "eligible field "+name+" gained no plenc tag")
			case mustDash && got != "-":
				fails = append(fails, fmt.Sprintf("field %s is excluded by its tags (%s) but got plenc:%q", name, tag, got))
			case !mayDash && got == "-":
				fails = append(fails, fmt.Sprintf("field %s is not excluded by its tags (%s) under these options but got plenc:\"-\"", name, tag))
			}
		}
	}
	return fails
}
