package main

import (
	"bytes"
	"encoding/json"
	"fmt"
	"math"
	"reflect"
	"sort"
	"strconv"
	"strings"
	"time"
	"unicode/utf8"
	"unsafe"

	"github.com/philpearl/plenc"
	"github.com/philpearl/plenc/plenccodec"
	"github.com/unravelin/null"
)

func init() {
	propRunners["C15"] = runC15
	propRunners["C19"] = runC19
}

// ---- executor side ---------------------------------------------------------------

func applyCall(j *plenccodec.JSONOutput, c *Sexp) error {
	if !c.IsL {
		switch c.Atom {
		case "so":
			j.StartObject()
		case "eo":
			j.EndObject()
		case "sa":
			j.StartArray()
		case "ea":
			j.EndArray()
		default:
			return fmt.Errorf("bad call %s", c.Atom)
		}
		return nil
	}
	arg := func(i int) string { return c.List[i].Atom }
	switch c.head() {
	case "n":
		b, err := unhx(arg(1))
		if err != nil {
			return err
		}
		j.NameField(string(b))
	case "s":
		b, err := unhx(arg(1))
		if err != nil {
			return err
		}
		j.String(string(b))
	case "raw":
		b, err := unhx(arg(1))
		if err != nil {
			return err
		}
		j.Raw(string(b))
	case "i64":
		v, err := strconv.ParseInt(arg(1), 10, 64)
		if err != nil {
			return err
		}
		j.Int64(v)
	case "u64":
		v, err := strconv.ParseUint(arg(1), 10, 64)
		if err != nil {
			return err
		}
		j.Uint64(v)
	case "f64":
		v, err := strconv.ParseUint(arg(1), 10, 64)
		if err != nil {
			return err
		}
		j.Float64(math.Float64frombits(v))
	case "f32":
		v, err := strconv.ParseUint(arg(1), 10, 32)
		if err != nil {
			return err
		}
		j.Float32(math.Float32frombits(uint32(v)))
	case "bool":
		j.Bool(arg(1) == "1")
	case "time":
		s, e1 := strconv.ParseInt(arg(1), 10, 64)
		n, e2 := strconv.ParseInt(arg(2), 10, 64)
		if e1 != nil || e2 != nil {
			return fmt.Errorf("bad time")
		}
		j.Time(time.Unix(s, n).UTC())
	default:
		return fmt.Errorf("bad call %s", c.head())
	}
	return nil
}

// one outputter is re-used for the whole run: Reset()/reuse histories
var sharedOut plenccodec.JSONOutput

func execJSONOut(s *Sexp) string {
	return guard(func() string {
		var outs []string
		sharedOut.Reset()
		for _, batch := range s.List[1:] {
			calls := batch.List
			abandon := batch.head() == "abandon"
			if abandon {
				calls = calls[1:]
			}
			for _, c := range calls {
				if err := applyCall(&sharedOut, c); err != nil {
					return "bad-op " + err.Error()
				}
			}
			if !abandon {
				outs = append(outs, hx(append([]byte(nil), sharedOut.Done()...)))
			}
			sharedOut.Reset()
		}
		return strings.Join(outs, " ")
	})
}

type internPlain struct {
	S string `plenc:"1"`
}
type internStr struct {
	S string `plenc:"1,intern"`
}
type internNull struct {
	S null.String `plenc:"1,intern"`
}

// execInternSeq decodes each input through a fresh interned field (fresh Plenc
// instance = fresh table), overwriting the input buffer after every call, and
// reports the decoded strings (re-read at the very end) and their sharing structure.
func execInternSeq(s *Sexp) string {
	kind := s.List[1].Atom
	return guard(func() string {
		p := &plenc.Plenc{}
		p.RegisterDefaultCodecs()
		plencnullAdd(p)
		var results []string
		// the "…reuse" kinds decode every input into the SAME variable (the field is
		// present in every input, so each decode must overwrite what the last one left)
		var reuseStr internStr
		var reuseNull internNull
		for _, it := range s.List[2:] {
			d, err := unhx(it.Atom)
			if err != nil {
				return "bad-op"
			}
			buf := append(refTag(1, 2), lenPrefixed(d)...)
			var got string
			switch kind {
			case "strreuse":
				if err := p.Unmarshal(buf, &reuseStr); err != nil {
					return "err"
				}
				got = reuseStr.S
			case "nullreuse":
				if err := p.Unmarshal(buf, &reuseNull); err != nil {
					return "err"
				}
				if !reuseNull.S.Valid {
					return "invalid"
				}
				got = reuseNull.S.String
			case "str":
				var v internStr
				if err := p.Unmarshal(buf, &v); err != nil {
					return "err"
				}
				got = v.S
			case "null":
				var v internNull
				if err := p.Unmarshal(buf, &v); err != nil {
					return "err"
				}
				if !v.S.Valid {
					return "invalid"
				}
				got = v.S.String
			default:
				return "bad-op"
			}
			for i := range buf {
				buf[i] = 0xAA // the caller re-uses its buffer
			}
			results = append(results, got)
		}
		var outs, ids []string
		seen := map[unsafe.Pointer]int{}
		for _, r := range results {
			outs = append(outs, hx([]byte(r)))
			if len(r) == 0 {
				ids = append(ids, "-")
				continue
			}
			ptr := unsafe.Pointer(unsafe.StringData(r))
			id, ok := seen[ptr]
			if !ok {
				id = len(seen)
				seen[ptr] = id
			}
			ids = append(ids, strconv.Itoa(id))
		}
		return strings.Join(outs, " ") + " | " + strings.Join(ids, " ")
	})
}

// ---- generator side -----------------------------------------------------------------

var jsonStrings = [][]byte{
	nil, []byte("a"), []byte(`"`), []byte(`\`), []byte("\n"), []byte("\r\t"), {0}, {1}, {0x1f}, {0x7f}, {0x80}, {0xff},
	[]byte("  "), []byte("héllo wörld"), []byte("日本語"), []byte(",\n"), []byte(`a"b\c`), []byte("</script>"),
	{0xc3}, {0xe2, 0x82}, []byte(": "), []byte("{}[]"),
	// line separators in the middle, the replacement character itself, the code points next to U+2028/9
	[]byte("a\u2028b"), []byte("\u2029x\u2028"), []byte("\ufffd"), []byte("x\ufffdy\ufffd"), []byte("12\u2030"), []byte("51\u00b0 28\u2032 40\u2033"),
	[]byte("\u2039q\u203a"), []byte("wow\u203c"), []byte("\u2027\u202a\u202f\u2030\u203f\u2040"), []byte("\u1fff\u2000\u20ff"),
}

func (g *Gen) jsonStr() []byte {
	if g.r.P(6) {
		// around the 1-byte / 2-byte length prefix boundary
		n := []int{120, 124, 125, 126, 127, 128, 129, 300}[g.r.Intn(8)]
		b := make([]byte, n)
		for i := range b {
			b[i] = byte('a' + i%26)
		}
		return b
	}
	if g.r.P(60) {
		return jsonStrings[g.r.Intn(len(jsonStrings))]
	}
	return g.r.Bytes(g.r.Intn(8))
}

func fmtTime(sec, nsec int64) []byte {
	return time.Unix(sec, nsec).UTC().AppendFormat(nil, `"`+time.RFC3339Nano+`"`)
}

func (g *Gen) jsonScalar() *Sexp {
	switch g.r.Intn(9) {
	case 0, 1:
		return L(A("s"), A(hx(g.jsonStr())))
	case 2:
		v := g.i64()
		return L(A("i64"), A(strconv.FormatInt(v, 10)), A(hx(strconv.AppendInt(nil, v, 10))))
	case 3:
		v := g.u64()
		return L(A("u64"), A(strconv.FormatUint(v, 10)), A(hx(strconv.AppendUint(nil, v, 10))))
	case 4:
		for {
			b := g.r.U64()
			if g.r.P(50) {
				b = f64Specials[g.r.Intn(len(f64Specials))]
			}
			f := math.Float64frombits(b)
			if math.IsNaN(f) || math.IsInf(f, 0) {
				continue // finite floats only (the property's quantifier)
			}
			return L(A("f64"), A(strconv.FormatUint(b, 10)), A(hx(strconv.AppendFloat(nil, f, 'g', -1, 64))))
		}
	case 5:
		for {
			b := uint32(g.r.U64())
			if g.r.P(50) {
				b = uint32(f32Specials[g.r.Intn(len(f32Specials))])
			}
			f := math.Float32frombits(b)
			if f != f || math.IsInf(float64(f), 0) {
				continue
			}
			return L(A("f32"), A(strconv.FormatUint(uint64(b), 10)), A(hx(strconv.AppendFloat(nil, float64(f), 'g', -1, 64))))
		}
	case 6:
		if g.r.Bool() {
			return L(A("bool"), A("1"), A(hx([]byte("true"))))
		}
		return L(A("bool"), A("0"), A(hx([]byte("false"))))
	case 7:
		sec := int64(g.r.U64()%(1<<34)) - (1 << 31)
		nsec := int64(g.r.Intn(1000000000))
		if g.r.P(30) {
			nsec = 0
		}
		return L(A("time"), A(strconv.FormatInt(sec, 10)), A(strconv.FormatInt(nsec, 10)), A(hx(fmtTime(sec, nsec))))
	}
	return L(A("raw"), A(hx([]byte(g.r.Pick("null", "123", "1.5e3", `"x"`, "true")))))
}

func (g *Gen) jsonTree(depth int, out *[]*Sexp) {
	k := g.r.Intn(10)
	if depth <= 0 && k >= 5 {
		k = 0
	}
	switch {
	case k < 5:
		*out = append(*out, g.jsonScalar())
	case k < 8:
		*out = append(*out, A("sa"))
		for n := g.r.Intn(4); n > 0; n-- {
			g.jsonTree(depth-1, out)
		}
		*out = append(*out, A("ea"))
	default:
		*out = append(*out, A("so"))
		for n := g.r.Intn(4); n > 0; n-- {
			*out = append(*out, L(A("n"), A(hx(g.jsonStr()))))
			g.jsonTree(depth-1, out)
		}
		*out = append(*out, A("eo"))
	}
}

func runC15(r *Runner, g *Gen, tier string) string {
	n := scale(tier, 6000, 1000000)
	for i := 0; i < n; i++ {
		batches := []*Sexp{A("jsonout")}
		for b := 1 + g.r.Intn(2); b > 0; b-- {
			var calls []*Sexp
			g.jsonTree(1+g.r.Intn(5), &calls)
			if g.r.P(20) && len(calls) > 1 {
				// a half-written document abandoned with Reset(): a proper prefix of a call tree
				cut := 1 + g.r.Intn(len(calls)-1)
				batches = append(batches, L(append([]*Sexp{A("abandon")}, calls[:cut]...)...))
				g.count("jsonout.abandoned")
			}
			batches = append(batches, L(calls...))
		}
		op := L(batches...)
		r.Do(op, len(op.String()) > 40, "jsonout")
	}
	// deep nesting: arrays, objects and alternations, every depth up to 80 and some far beyond
	for _, depth := range append(seqInts(1, 80), 100, 127, 128, 129, 255, 256, 257, scale(tier, 400, 1000)) {
		for shape := 0; shape < 3; shape++ {
			var calls []*Sexp
			for d := 0; d < depth; d++ {
				if shape == 0 || (shape == 2 && d%2 == 0) {
					calls = append(calls, A("sa"))
				} else {
					calls = append(calls, A("so"), L(A("n"), A(hx([]byte{byte('a' + d%26)}))))
				}
			}
			calls = append(calls, L(A("s"), A(hx([]byte("x")))))
			for d := depth - 1; d >= 0; d-- {
				if shape == 0 || (shape == 2 && d%2 == 0) {
					calls = append(calls, A("ea"))
				} else {
					calls = append(calls, A("eo"))
				}
			}
			r.Do(L(A("jsonout"), L(calls...)), true, "jsonout.deep")
		}
	}
	// every byte value as a one-byte string and as a name
	for b := 0; b < 256; b++ {
		r.Do(L(A("jsonout"), L(A("so"), L(A("n"), A(hx([]byte{byte(b)}))), L(A("s"), A(hx([]byte{byte(b)}))), A("eo"))), true, "jsonout.bytes")
	}
	return "random call trees (depth<=5, width<=3, plus pure nestings of every depth up to 80 and up to 1000; empty containers, every container/scalar adjacency) with strings and names over every byte value (quotes, backslashes, control characters, U+2028/9, invalid UTF-8, a string ending in ',\\n'), int64/uint64 boundaries, finite float64/float32 specials, bools, times, raw tokens; 1-2 Done()/Reset() cycles per op on one outputter shared by the whole run; compared: the exact bytes of every Done(); number/time tokens are formatted by the harness with strconv/time directly; oracle: encoding/json accepts the output and it parses back to the call tree"
}

func seqInts(a, b int) []int {
	var out []int
	for i := a; i <= b; i++ {
		out = append(out, i)
	}
	return out
}

// ---- C15 oracle: parse the output with encoding/json and compare with the call tree

func callTreeValue(calls []*Sexp, pos *int) (interface{}, bool) {
	c := calls[*pos]
	*pos++
	if !c.IsL {
		switch c.Atom {
		case "sa":
			arr := []interface{}{}
			for calls[*pos].IsL || calls[*pos].Atom != "ea" {
				v, ok := callTreeValue(calls, pos)
				if !ok {
					return nil, false
				}
				arr = append(arr, v)
			}
			*pos++
			return arr, true
		case "so":
			obj := map[string]interface{}{}
			for calls[*pos].IsL || calls[*pos].Atom != "eo" {
				nm := calls[*pos]
				*pos++
				b, _ := unhx(nm.List[1].Atom)
				if !utf8.Valid(b) {
					return nil, false
				}
				v, ok := callTreeValue(calls, pos)
				if !ok {
					return nil, false
				}
				if _, dup := obj[string(b)]; dup {
					return nil, false // duplicate names: encoding/json keeps the last; skip comparison
				}
				obj[string(b)] = v
			}
			*pos++
			return obj, true
		}
		return nil, false
	}
	switch c.head() {
	case "s":
		b, _ := unhx(c.List[1].Atom)
		if !utf8.Valid(b) {
			return nil, false
		}
		return string(b), true
	case "i64", "u64", "f64", "f32":
		tok, _ := unhx(c.List[2].Atom)
		return json.Number(tok), true
	case "bool":
		return c.List[1].Atom == "1", true
	case "time":
		tok, _ := unhx(c.List[3].Atom)
		return string(tok[1 : len(tok)-1]), true
	case "raw":
		tok, _ := unhx(c.List[1].Atom)
		var v interface{}
		d := json.NewDecoder(bytes.NewReader(tok))
		d.UseNumber()
		if d.Decode(&v) != nil {
			return nil, false
		}
		return v, true
	}
	return nil, false
}

func oracleJSONOut(op *Sexp, res string) []string {
	var fails []string
	outs := strings.Fields(res)
	var full []*Sexp
	for _, b := range op.List[1:] {
		if b.head() != "abandon" {
			full = append(full, b)
		}
	}
	if len(outs) != len(full) {
		return []string{"wrong number of outputs: " + res}
	}
	for i, batch := range full {
		out, err := unhx(outs[i])
		if err != nil {
			return []string{"bad output"}
		}
		if !json.Valid(out) {
			fails = append(fails, fmt.Sprintf("output is not valid JSON: %q", out))
			continue
		}
		if !utf8.Valid(out) {
			// JSON text is UTF-8 (RFC 8259 §8.1): encoding/json's syntax check lets raw invalid bytes through, a strict reader does not
			fails = append(fails, fmt.Sprintf("F21 the output is not valid UTF-8 (a string or name with invalid UTF-8 is copied byte for byte): %q", clip(string(out), 80)))
		}
		pos := 0
		want, ok := callTreeValue(batch.List, &pos)
		if !ok {
			continue
		}
		var got interface{}
		d := json.NewDecoder(bytes.NewReader(out))
		d.UseNumber()
		if err := d.Decode(&got); err != nil {
			fails = append(fails, "decode: "+err.Error())
			continue
		}
		if !reflect.DeepEqual(normJSON(got), normJSON(want)) {
			fails = append(fails, fmt.Sprintf("output %q does not parse back to the call tree", out))
		}
	}
	return fails
}

// normJSON compares numbers by value of their token (1e+06 vs 1000000 never mixes here: same formatter)
func normJSON(v interface{}) interface{} {
	switch v := v.(type) {
	case []interface{}:
		out := make([]interface{}, len(v))
		for i, x := range v {
			out[i] = normJSON(x)
		}
		return out
	case map[string]interface{}:
		out := map[string]interface{}{}
		for k, x := range v {
			out[k] = normJSON(x)
		}
		return out
	case json.Number:
		return string(v)
	}
	return v
}

// ---- C19 -----------------------------------------------------------------------------

func runC19(r *Runner, g *Gen, tier string) string {
	n := scale(tier, 3000, 200000)
	pool := [][]byte{[]byte("a"), []byte("ab"), []byte("abc"), []byte("b"), nil, {0}, {0, 0}, {0xff, 0xfe}, []byte("hello"), []byte("hell"), []byte("héllo")}
	for i := 0; i < n; i++ {
		items := []*Sexp{A("internseq"), A(g.r.Pick("str", "str", "null", "strreuse", "nullreuse"))}
		k := 1 + g.r.Intn(10)
		var local [][]byte
		for j := 0; j < k; j++ {
			var d []byte
			switch {
			case len(local) > 0 && g.r.P(40):
				d = local[g.r.Intn(len(local))] // repeat
			case g.r.P(50):
				d = pool[g.r.Intn(len(pool))]
			default:
				d = g.r.Bytes(g.r.Intn(5))
			}
			local = append(local, d)
			items = append(items, A(hx(d)))
		}
		r.Do(L(items...), k > 2, "internseq")
	}
	// long values through interned string and null.String fields (a length-based shortcut must still be a whole decode)
	for _, n := range []int{1023, 1024, 1025, 4097, 70000} {
		lt := Struct(&FieldDef{Name: "S", Exported: true, Plenc: "1,intern", T: B("str")}, &FieldDef{Name: "N", Exported: true, Plenc: "2,intern", T: Ext("null.String")})
		long := make([]byte, n)
		for i := range long {
			long[i] = byte('a' + i%23)
		}
		v := &Val{K: "r", L: []*Val{{K: "s", Data: long}, {K: "p", P: &Val{K: "s", Data: long}}}}
		r.Do(codecOp("rt", "(cfg 00 null)", lt, "", v.Sexp()), true, "rt.intern-long")
		// single bytes of every value, too (a table of one-character strings must hold the BYTES)
	}
	for b := 0; b < 256; b += 5 {
		lt := Struct(&FieldDef{Name: "S", Exported: true, Plenc: "1,intern", T: B("str")})
		r.Do(codecOp("rt", "00", lt, "", (&Val{K: "r", L: []*Val{{K: "s", Data: []byte{byte(b)}}}}).Sexp()), true, "rt.intern-byte")
	}
	internLargeOps(r, scale(tier, 6, 48))
	// thousands of distinct values through one field (beyond any table size limit one might pick)
	for _, n := range []int{63, 64, 65, 255, 256, 257, 1023, 1025, scale(tier, 20000, 70000)} {
		r.Do(L(A("internmany"), A(fmt.Sprint(n))), true, "internmany")
	}
	internSchedOps(r, g, scale(tier, 600, 40000))
	return "histories of 1-10 decodes through one freshly built interned string field (string and null.String): new, repeated, empty, prefix-sharing and binary inputs, the caller's buffer overwritten after every call and all results re-read at the end; compared with the model: the decoded strings and the sharing structure (which results are the same allocation); oracle: each result equals the input bytes (= what the plain codec returns)"
}

// internSchedOps: 2-3 goroutines share one interned field; deterministic schedules over the intern yield points
func internSchedOps(r *Runner, g *Gen, m int) {
	pool := [][]byte{[]byte("a"), []byte("ab"), []byte("abc"), []byte("b"), nil}
	for i := 0; i < m; i++ {
		nt := 2 + g.r.Intn(2)
		reqs := []*Sexp{A("reqs")}
		for t := 0; t < nt; t++ {
			var ds []*Sexp
			for k := 1 + g.r.Intn(3); k > 0; k-- {
				ds = append(ds, A(hx(pool[g.r.Intn(5)]))) // few distinct values: races on the same key
			}
			reqs = append(reqs, L(ds...))
		}
		var sch []*Sexp
		if i < 200 {
			// one preemption at position i%40, then the other goroutine
			for k := 0; k < i%40; k++ {
				sch = append(sch, A("0"))
			}
			for k := 0; k < 60; k++ {
				sch = append(sch, A("1"))
			}
		} else {
			for k := 0; k < 60; k++ {
				sch = append(sch, A(fmt.Sprint(g.r.Intn(nt))))
			}
		}
		sop := L(A("internsched"), L(reqs...), L(sch...))
		r.Do(sop, true, "internsched")
		r.Do(makeInternTraceOp(sop), true, "interntrace")
	}
}

// internLargeOps: a table grown beyond any small-table fast path by one goroutine,
// then two goroutines racing on new and old values.
func internLargeOps(r *Runner, count int) {
	for k := 0; k < count; k++ {
		n := 70 + k
		if k%3 == 2 {
			// beyond the sizes where a table implementation might change strategy
			n = []int{258, 515, 1030, 130}[(k/3)%4] + k
		}
		var big []*Sexp
		for v := 0; v < n; v++ {
			big = append(big, A(hx([]byte(fmt.Sprintf("value-%03d", v)))))
		}
		t1 := []*Sexp{A(hx([]byte("value-001"))), A(hx([]byte("fresh-a"))), A(hx([]byte("value-069"))), A(hx([]byte("fresh-b")))}
		var sch []*Sexp
		for q := 0; q < 4*n+8+k; q++ {
			sch = append(sch, A("0"))
		}
		for q := 0; q < 40; q++ {
			sch = append(sch, A(fmt.Sprint(q%2)))
		}
		lop := L(A("internsched"), L(A("reqs"), L(append(big, A(hx([]byte("fresh-b"))), A(hx([]byte("fresh-c"))))...), L(t1...)), L(sch...))
		r.Do(lop, true, "internsched.large")
		r.Do(makeInternTraceOp(lop), true, "interntrace.large")
	}
}

// every goroutine must get exactly its inputs back, whatever the interleaving
func oracleInternSched(op *Sexp, res string) []string {
	var want []string
	for _, th := range op.List[1].List[1:] {
		var ds []string
		for _, it := range th.List {
			ds = append(ds, it.Atom)
		}
		want = append(want, strings.Join(ds, ","))
	}
	if res != strings.Join(want, " | ") {
		return []string{"interned decode under a schedule differs from the inputs: " + res + " | trace: " + schedLastTrace}
	}
	return nil
}

// the real run behind a recorded trace: results are the inputs, the table holds exactly the distinct inputs
func oracleInternTrace(op *Sexp, res string) []string {
	var want []string
	distinct := map[string]bool{}
	for _, th := range op.List[1].List[1:] {
		var ds []string
		for _, it := range th.List {
			ds = append(ds, it.Atom)
			distinct[it.Atom] = true
		}
		want = append(want, strings.Join(ds, ","))
	}
	var keys []string
	for k := range distinct {
		keys = append(keys, k)
	}
	sort.Strings(keys)
	exp := "conforms keys=" + strings.Join(keys, ",") + " results=" + strings.Join(want, " | ")
	if res != exp {
		return []string{"interned decode under a schedule: got " + res + " want " + exp}
	}
	return nil
}

func oracleInternSeq(op *Sexp, res string) []string {
	parts := strings.SplitN(res, " | ", 2)
	outs := strings.Fields(parts[0])
	if len(outs) != len(op.List)-2 {
		return []string{"wrong number of results: " + res}
	}
	var fails []string
	for i, it := range op.List[2:] {
		if outs[i] != it.Atom {
			fails = append(fails, fmt.Sprintf("interned decode %d returned %s for input %s", i, outs[i], it.Atom))
		}
	}
	return fails
}
