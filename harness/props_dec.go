package main

import (
	"fmt"
	"strings"
)

func init() {
	propRunners["C04"] = runC04
}

// hostile targets: a fixed set of shapes covering every reader, plus generated ones.
func hostileTargets() []*TyDef {
	inner := Struct(F("A", "1", B("int")), F("B", "2", B("str")))
	return []*TyDef{
		B("int"), B("uint8"), B("bool"), B("f32"), B("f64"), B("str"), Slice(B("uint8")), {K: "time"},
		Slice(B("int")), Slice(B("f64")), Slice(B("str")), Slice(Ptr(B("int"))), Slice(inner), Slice(Slice(B("int"))),
		Map(B("str"), B("int")), Map(B("int"), B("str")), Map(inner, Ptr(B("str"))),
		Struct(F("A", "1", B("int")), F("B", "2", B("str")), F("C", "3", Slice(B("str"))), F("D", "4", Map(B("str"), B("int")))),
		Struct(F("A", "0", B("int")), F("T", "1", &TyDef{K: "time"}), F("P", "2", Ptr(inner)), F("F", "3", Slice(B("f32")))),
		Struct(&FieldDef{Name: "S", Exported: true, Plenc: "1,proto", T: Slice(B("str"))},
			&FieldDef{Name: "M", Exported: true, Plenc: "2,proto", T: Map(B("str"), B("int"))},
			F("V", "3", Slice(B("uint16")))),
		named("Rec"), named("MutA"),
	}
}

var hostileAlphabet = []byte{0x00, 0x01, 0x02, 0x03, 0x05, 0x08, 0x0a, 0x0b, 0x12, 0x1a, 0x1b, 0x7f, 0x80, 0x81, 0xff}

func runC04(r *Runner, g *Gen, tier string) string {
	targets := hostileTargets()
	// 1. exhaustive short strings over the alphabet
	maxLen := scale(tier, 3, 4)
	var rec func(t *TyDef, cfg string, prefix []byte)
	rec = func(t *TyDef, cfg string, prefix []byte) {
		r.Do(codecOp("dec", cfg, t, "", A(hx(prefix)), A("zero")), len(prefix) > 0, "dec.exhaustive")
		if descWalkable(cfg, t) {
			r.Do(codecOp("deschost", cfg, t, "", A(hx(prefix))), len(prefix) > 0, "deschost.exhaustive")
		}
		if len(prefix) >= maxLen {
			return
		}
		for _, b := range hostileAlphabet {
			rec(t, cfg, append(append([]byte(nil), prefix...), b))
		}
	}
	for i, t := range targets {
		cfg := "00"
		if i%5 == 4 {
			cfg = "11"
		}
		rec(t, cfg, nil)
	}
	// 2. truncations and mutations of valid encodings of generated types
	n := scale(tier, 1500, 60000)
	huge := [][]byte{refVarint(1 << 31), refVarint(1 << 32), refVarint(1 << 63), refVarint(^uint64(0)), {0xff, 0xff, 0xff, 0xff, 0xff, 0xff, 0xff, 0xff, 0xff, 0xff, 0x01}}
	for i := 0; i < n; i++ {
		cfg := g.pickCfg()
		var t *TyDef
		if g.r.P(30) {
			t = targets[g.r.Intn(len(targets))]
		} else {
			t = g.topType(2)
		}
		b := 25
		v := g.Value(t, &b)
		res := execOp(codecOp("enc", cfg, t, "", v.Sexp()))
		if !strings.HasPrefix(res, "ok x") {
			continue
		}
		enc, _ := unhx(res[3:])
		if len(enc) > 300 {
			continue
		}
		r.Do(codecOp("dec", cfg, t, "", A(hx(enc)), A("zero")), true, "dec.valid")
		for k := 0; k < 6 && len(enc) > 0; k++ {
			m := append([]byte(nil), enc...)
			switch g.r.Intn(5) {
			case 0:
				m = m[:g.r.Intn(len(m))]
			case 1:
				m[g.r.Intn(len(m))] ^= byte(1 << uint(g.r.Intn(8)))
			case 2:
				m[g.r.Intn(len(m))] = hostileAlphabet[g.r.Intn(len(hostileAlphabet))]
			case 3:
				// replace a byte by a huge varint
				p := g.r.Intn(len(m))
				h := huge[g.r.Intn(len(huge))]
				m = append(append(append([]byte(nil), m[:p]...), h...), m[p+1:]...)
			case 4:
				// splice two encodings
				p := g.r.Intn(len(m))
				m = append(append([]byte(nil), m[p:]...), m[:p]...)
			}
			r.Do(codecOp("dec", cfg, t, "", A(hx(m)), A("zero")), true, "dec.mutated")
			if descWalkable(cfg, t) {
				r.Do(codecOp("deschost", cfg, t, "", A(hx(m))), true, "deschost.mutated")
			}
		}
	}
	// 2a. nesting attacks on recursive types: (i) every level is a counted slice / map whose count claims
	// all the bytes that remain while its first entry holds the next level; (ii) a chain of nested
	// messages that ends in something undecodable, so that every level wraps an error
	for _, depth := range []int{50, 200, scale(tier, 600, 1500)} {
		nest := func(idx, wt int, counted bool, leaf []byte) []byte {
			inner := leaf
			for i := 0; i < depth; i++ {
				var body []byte
				if counted {
					rest := lenPrefixed(inner)
					body = append(refVarint(uint64(len(rest))), rest...) // count = every remaining byte
				} else {
					body = lenPrefixed(inner)
				}
				inner = append(refTag(idx, wt), body...)
			}
			return inner
		}
		rec, recmap, muta := named("Rec"), named("RecMap"), named("MutA")
		r.Do(codecOp("decdeep", "00", rec, "", A(hx(nest(3, 3, true, nil))), A("zero")), true, "dec.nested-counts")
		r.Do(codecOp("decdeep", "00", rec, "", A(hx(nest(3, 3, true, []byte{0x1f}))), A("zero")), true, "dec.nested-counts")
		r.Do(codecOp("decdeep", "00", rec, "", A(hx(nest(2, 2, false, []byte{0x1f}))), A("zero")), true, "dec.nested-errors")
		r.Do(codecOp("decdeep", "00", muta, "", A(hx(nest(1, 2, false, []byte{0x1f}))), A("zero")), true, "dec.nested-errors")
		r.Do(codecOp("deschost", "00", Struct(F("L", "1", Slice(Struct(F("L", "1", Slice(Struct(F("A", "1", B("int"))))))))), "", A(hx(nest(1, 3, true, nil)))), true, "deschost.nested-counts")
		// map entries: count, then entry = length-prefixed {key?, value = field 2 holding the next level}
		m := []byte{}
		for i := 0; i < depth; i++ {
			entry := append(refTag(2, 2), lenPrefixed(append(refTag(1, 3), m...))...)
			rest := lenPrefixed(entry)
			m = append(refVarint(uint64(len(rest))), rest...)
		}
		r.Do(codecOp("decdeep", "00", recmap, "", A(hx(append(refTag(1, 3), m...))), A("zero")), true, "dec.nested-counts")
		// JSON-any arrays: count, then each entry length-prefixed {type = field 2 varint 6 (array)?, value}
		r.Do(L(A("jhost"), A("arr"), A(hx(jsonNest(depth)))), true, "jhost.nested-counts")
		// well-formed nests walked with the descriptor into the JSON outputter (its indentation grows with the depth)
		for _, d2 := range []int{31, 32, 33, 34, 64, 65, depth} {
			r.Do(L(A("jhostdesc"), A("arr"), A(hx(deepArrayBytes(d2)))), true, "jhostdesc.deep")
		}
	}
	// 2a'. map entries that leave the key or the value out, for key and value types wider than any fixed-size
	// zero block a map codec might keep (1 KB / 4 KB / 64 KB values; a wide key)
	{
		wide := func(n int) *TyDef {
			var fs []*FieldDef
			for i := 0; i < n; i++ {
				fs = append(fs, F(fmt.Sprintf("F%d", i), fmt.Sprint(i+1), B("uint64")))
			}
			return Struct(fs...)
		}
		for _, w := range []int{127, 128, 129, 140, 520, scale(tier, 600, 8200)} {
			for _, t := range []*TyDef{Map(B("str"), wide(w)), Map(wide(w), B("str")), Map(B("int"), Ptr(wide(w))),
				Struct(&FieldDef{Name: "M", Exported: true, Plenc: "1,proto", T: Map(B("str"), wide(w))})} {
				var inputs [][]byte
				if t.K == "map" {
					inputs = [][]byte{{0x01, 0x03, 0x0a, 0x01, 0x61}, {0x01, 0x02, 0x08, 0x02}, {0x01, 0x00}, {0x02, 0x03, 0x0a, 0x01, 0x61, 0x00}, {0x01, 0x02, 0x12, 0x00}}
				} else {
					inputs = [][]byte{{0x0a, 0x03, 0x0a, 0x01, 0x61}, {0x0a, 0x00}, {0x0a, 0x02, 0x12, 0x00}}
				}
				for _, in := range inputs {
					r.Do(codecOp("dec", "00", t, "", A(hx(in)), A("zero")), true, "dec.wide-map-entry")
					r.Do(codecOp("dec", "00", t, "", A(hx(in)), A("zero")), true, "dec.wide-map-entry")
				}
			}
		}
		// descriptor rendering of moderately deep nests stays within a fixed multiple of the input (deep ones: F22)
		for _, d := range []int{10, 20, 31} {
			r.Do(L(A("jdescdeep"), A(fmt.Sprint(d))), true, "jdescdeep")
		}
		// the BigQuery timestamp codec behind a nil pointer and as a map key (its New() must hand out a whole time.Time)
		for i := 0; i < scale(tier, 3, 40); i++ {
			r.Do(L(A("bqptr"), A(fmt.Sprint(50+i*40))), true, "bqptr")
		}
	}
	// 2a''. the room a counted container requests (entriesPresent): every short body over a small alphabet under
	// several counts, well-formed bodies of n entries with trailing garbage, huge declared lengths
	{
		alpha := []byte{0x00, 0x01, 0x02, 0x05, 0x7f, 0x80, 0xff}
		var gen func(prefix []byte)
		gen = func(prefix []byte) {
			for _, mx := range []string{"0", "1", "2", "5", "18446744073709551615"} {
				r.Do(L(A("entriespresent"), A(hx(prefix)), A(mx)), len(prefix) > 0, "entriespresent.exhaustive")
			}
			if len(prefix) >= scale(tier, 4, 5) {
				return
			}
			for _, b := range alpha {
				gen(append(append([]byte(nil), prefix...), b))
			}
		}
		gen(nil)
		for i := 0; i < scale(tier, 300, 20000); i++ {
			var body []byte
			n := g.r.Intn(6)
			for k := 0; k < n; k++ {
				body = append(body, lenPrefixed(g.r.Bytes(g.r.Pick3(0, 1, 130)))...)
			}
			switch g.r.Intn(4) {
			case 0:
				body = append(body, g.r.Bytes(g.r.Intn(3))...)
			case 1:
				body = append(body, refVarint(1<<62)...)
			case 2:
				if len(body) > 0 {
					body = body[:g.r.Intn(len(body))]
				}
			}
			r.Do(L(A("entriespresent"), A(hx(body)), A(fmt.Sprint(g.r.Pick3(n, n+3, 1)))), true, "entriespresent.random")
		}
	}
	// 2b. the JSON-any decoders and their descriptor walk: exhaustive short strings, then mutated valid encodings
	jalpha := []byte{0x00, 0x01, 0x02, 0x03, 0x05, 0x06, 0x07, 0x08, 0x0a, 0x10, 0x12, 0x18, 0x1a, 0x1b, 0x7f, 0x80, 0xff}
	jmax := scale(tier, 3, 4)
	var jrec func(prefix []byte)
	jrec = func(prefix []byte) {
		for _, kind := range []string{"obj", "arr"} {
			r.Do(L(A("jhost"), A(kind), A(hx(prefix))), len(prefix) > 0, "jhost.exhaustive")
			r.Do(L(A("jhostdesc"), A(kind), A(hx(prefix))), len(prefix) > 0, "jhostdesc.exhaustive")
		}
		if len(prefix) >= jmax {
			return
		}
		for _, b := range jalpha {
			jrec(append(append([]byte(nil), prefix...), b))
		}
	}
	jrec(nil)
	for i := 0; i < scale(tier, 600, 30000); i++ {
		v := g.jobj(1 + g.r.Intn(3))
		kind := "obj"
		if g.r.Bool() {
			v, kind = g.jarr(1+g.r.Intn(3)), "arr"
		}
		res := jenc(r, v)
		if !strings.HasPrefix(res, "ok x") {
			continue
		}
		enc, _ := unhx(res[3:])
		if len(enc) == 0 || len(enc) > 400 {
			continue
		}
		for k := 0; k < 4; k++ {
			m := append([]byte(nil), enc...)
			switch g.r.Intn(4) {
			case 0:
				m = m[:g.r.Intn(len(m))]
			case 1:
				m[g.r.Intn(len(m))] ^= byte(1 << uint(g.r.Intn(8)))
			case 2:
				m[g.r.Intn(len(m))] = jalpha[g.r.Intn(len(jalpha))]
			case 3:
				p := g.r.Intn(len(m))
				h := huge[g.r.Intn(len(huge))]
				m = append(append(append([]byte(nil), m[:p]...), h...), m[p+1:]...)
			}
			r.Do(L(A("jhost"), A(kind), A(hx(m))), true, "jhost.mutated")
			r.Do(L(A("jhostdesc"), A(kind), A(hx(m))), true, "jhostdesc.mutated")
		}
	}
	// 3. long inputs: thousands of elements / entries in every repeating wire form (count-prefixed,
	// packed, fixed, protobuf-style repeated tags read by either configuration, map entries):
	// allocation must stay a fixed multiple of the input length however long the input is
	nBig := scale(tier, 6000, 20000)
	inner := Struct(F("A", "1", B("int")), F("B", "2", B("str")))
	bigTypes := []*TyDef{
		Struct(F("S", "1", Slice(B("str")))),
		Struct(F("S", "1", Slice(inner))),
		Struct(F("S", "1", Slice(Ptr(inner)))),
		Struct(F("S", "1", Slice(B("int")))),
		Struct(F("S", "1", Slice(B("f64")))),
		Struct(F("S", "1", Slice(Slice(B("uint8"))))),
		Struct(F("M", "1", Map(B("int"), B("str")))),
		Struct(&FieldDef{Name: "M", Exported: true, Plenc: "1,proto", T: Map(B("int"), B("int"))}),
		Struct(&FieldDef{Name: "S", Exported: true, Plenc: "1,proto", T: Slice(B("str"))}),
		Slice(B("str")), Map(B("str"), B("int")),
	}
	for _, t := range bigTypes {
		v := bigValue(t, nBig)
		for _, ecfg := range []string{"00", "01"} {
			res := execOp(codecOp("enc", ecfg, t, "", v.Sexp()))
			if !strings.HasPrefix(res, "ok x") {
				continue
			}
			for _, dcfg := range []string{"00", "01"} {
				if t.K != "struct" && dcfg != ecfg {
					continue // the repeated form outside a struct field is not self-delimiting (F02)
				}
				r.Do(codecOp("dec", dcfg, t, "", A(res[3:]), A("zero")), true, "dec.long")
			}
		}
	}
	// 4. very long inputs (beyond what the model's decoder can follow in reasonable time): oracle only
	for _, n := range []int{scale(tier, 120000, 400000), scale(tier, 300000, 1500000)} {
		for _, kind := range []string{"strs", "structs", "ptrs", "ints", "f64s", "bytess", "map", "pmap", "pstrs"} {
			// (not default-written data read with ProtoCompatibleArrays: no property promises that direction,
			// and plenc cannot do it: the slice wrapper chosen by the option ignores the wire type it is given)
			for _, cf := range [][2]string{{"00", "00"}, {"01", "00"}, {"01", "01"}} {
				r.Do(L(A("declong"), A(cf[0]), A(cf[1]), A(kind), A(fmt.Sprint(n))), true, "declong")
			}
		}
	}
	return "every byte string up to the tier's length over a 15-byte alphabet (tags of known/unknown indexes and all wire types, 0x00, 0x7f, 0x80, 0xff) decoded into 22 target types covering every reader (exhaustive), the same bytes walked with the type's Descriptor, and the JSON-any map / array codecs and their descriptor walk on exhaustive short strings and mutated valid encodings; plus truncations, bit flips, huge-varint substitutions and rotations of valid encodings of generated types; compared: outcome class ok/err/panic and the decoded value on ok; plus valid encodings with thousands of elements / entries in every repeating wire form; oracle: any panic, fatal crash or hang of the implementation, and bytes allocated during the call above a type-dependent multiple of the input length; non-trivial = non-empty input"
}

// bigValue: a value of t whose slices and maps hold n small elements.
func bigValue(t *TyDef, n int) *Val {
	switch t.K {
	case "struct":
		out := &Val{K: "r"}
		for _, f := range t.Fields {
			if fieldEncoded(f) {
				out.L = append(out.L, bigValue(f.T, n))
			}
		}
		return out
	case "slice":
		if t.isBytes() {
			return &Val{K: "y", Data: []byte{1}}
		}
		out := &Val{K: "l"}
		for i := 0; i < n; i++ {
			out.L = append(out.L, bigValue(t.Elem, 1))
		}
		return out
	case "map":
		out := &Val{K: "m"}
		for i := 0; i < n; i++ {
			var k *Val
			if t.Key.K == "str" {
				k = &Val{K: "s", Data: []byte(fmt.Sprintf("k%d", i))}
			} else {
				k = &Val{K: "i", I: int64(i + 1)}
			}
			out.M = append(out.M, [2]*Val{k, bigValue(t.Elem, 1)})
		}
		return out
	case "ptr":
		return &Val{K: "p", P: bigValue(t.Elem, 1)}
	case "str":
		return &Val{K: "s", Data: []byte("x")}
	case "int":
		return &Val{K: "i", I: 3}
	case "f64":
		return &Val{K: "f64", U: 0x3ff0000000000000}
	}
	return zeroVal(t)
}

// descWalkable: the type has a Descriptor (recursive types do not: F07) and the
// walk is within the model (the descriptor cannot express the proto forms: F06/F08
// concern valid data, but on arbitrary bytes the walker is compared whatever the form).
func descWalkable(cfg string, t *TyDef) bool {
	return !containsNamedStruct(t)
}

func containsNamedStruct(t *TyDef) bool {
	switch t.K {
	case "struct":
		if t.Name != "" {
			return true
		}
		for _, f := range t.Fields {
			if fieldEncoded(f) && containsNamedStruct(f.T) {
				return true
			}
		}
	case "ptr", "slice", "named":
		return containsNamedStruct(t.Elem)
	case "map":
		return containsNamedStruct(t.Key) || containsNamedStruct(t.Elem)
	}
	return false
}

// jsonNest: JSON-any arrays nested depth deep, every level's count claiming all
// the bytes that remain (entry = type field 2 = array, value field 3 = the next level).
func jsonNest(depth int) []byte {
	m := []byte{0x00}
	for i := 0; i < depth; i++ {
		entry := append([]byte{0x10, 0x05, 0x1b}, m...)
		rest := lenPrefixed(entry)
		m = append(refVarint(uint64(len(rest))), rest...)
	}
	return m
}
