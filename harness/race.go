package main

import (
	"fmt"
	"reflect"
	"strings"
	"sync"

	"github.com/philpearl/plenc"
)

// race mode: free-running goroutines (no scheduler), meant to be built with
// `go build -race`: several goroutines make the first-ever use of a type family
// on a fresh instance at the same moment, or decode through one shared interned
// field. The race detector (GORACE=halt_on_error=1) ends the process on the
// first data race; results are compared with the solo run as in the sched ops.
func runRace(prop string, rounds int) int {
	bad := 0
	report := func(f string, a ...interface{}) {
		bad++
		if bad <= 5 {
			fmt.Printf("RACE-MODE-FAIL "+f+"\n", a...)
		}
	}
	switch prop {
	case "C07":
		fams := append([]schedFamily{}, schedFamilies...)
		for _, rf := range regFamilies {
			fams = append(fams, schedFamily{"reg." + rf.name, rf.types, nil})
		}
		for round := 0; round < rounds; round++ {
			for _, f := range fams {
				n := 2 + round%3
				mk := func() (*plenc.Plenc, []func() string) {
					p := &plenc.Plenc{}
					p.RegisterDefaultCodecs()
					var ws []func() string
					for i := 0; i < n; i++ {
						rt := f.types[(i+round)%len(f.types)]
						if strings.HasPrefix(f.name, "reg.") {
							// families that include types whose construction fails: outcomes only
							ws = append(ws, func() string {
								_, e1 := p.CodecForType(rt)
								_, e2 := p.Marshal(nil, reflect.New(rt).Interface())
								_, e3 := p.CodecForType(rt)
								return fmt.Sprint(e1 == nil, e2 == nil, e3 == nil)
							})
							continue
						}
						ws = append(ws, workerFor(p, rt, uint64(round*7+i)))
					}
					return p, ws
				}
				var want []string
				for i := 0; i < n; i++ {
					_, ws := mk()
					want = append(want, guard(ws[i]))
				}
				p, ws := mk()
				if f.pre != nil {
					f.pre(p)
				}
				got := make([]string, n)
				var wg sync.WaitGroup
				start := make(chan struct{})
				for i := range ws {
					i := i
					wg.Add(1)
					go func() {
						defer wg.Done()
						<-start
						got[i] = guard(ws[i])
					}()
				}
				close(start)
				wg.Wait()
				for i := range want {
					if got[i] != want[i] {
						report("family %s round %d goroutine %d: got %s want %s", f.name, round, i, got[i], want[i])
					}
				}
				if m := registryComplete(p); m != "" {
					report("family %s round %d: %s", f.name, round, m)
				}
			}
		}
		// first construction of map codecs whose key / value types are larger than any fixed zero block,
		// by two goroutines at once, on fresh instances (shared package-level state must not be written)
		for round := 0; round < rounds; round += 8 {
			big := func(n int) reflect.Type {
				var fs []reflect.StructField
				for i := 0; i < n; i++ {
					fs = append(fs, reflect.StructField{Name: fmt.Sprintf("F%d", i), Type: reflect.TypeOf(uint64(0)), Tag: reflect.StructTag(fmt.Sprintf(`plenc:"%d"`, i+1))})
				}
				return reflect.StructOf(fs)
			}
			k := 130 + (round/8)*37%900
			types := []reflect.Type{reflect.MapOf(reflect.TypeOf(""), big(k)), reflect.MapOf(big(k+64), reflect.TypeOf("")), reflect.MapOf(reflect.TypeOf(int(0)), big(k+200))}
			var wg sync.WaitGroup
			start := make(chan struct{})
			for i, t := range types {
				i, t := i, t
				wg.Add(1)
				go func() {
					defer wg.Done()
					p := &plenc.Plenc{}
					p.RegisterDefaultCodecs()
					<-start
					if _, err := p.CodecForType(t); err != nil {
						report("big map type %d: %v", i, err)
						return
					}
					m := reflect.New(t)
					if err := p.Unmarshal([]byte{0x01, 0x00}, m.Interface()); err != nil {
						report("big map type %d: decode of an entry without key and value: %v", i, err)
					}
				}()
			}
			close(start)
			wg.Wait()
		}
		// steady state: the codecs exist, several goroutines encode and decode different values of
		// one type through them at once, under each option combination
		for round := 0; round < rounds; round += 10 {
			for _, fl := range [][2]bool{{false, false}, {true, false}, {false, true}, {true, true}} {
				p := &plenc.Plenc{ProtoCompatibleTime: fl[0], ProtoCompatibleArrays: fl[1]}
				p.RegisterDefaultCodecs()
				rt := reflect.TypeOf(Steady{})
				const n, iters = 4, 40
				var want [n][iters]string
				for i := 0; i < n; i++ {
					for k := 0; k < iters; k++ {
						want[i][k] = guard(workerFor(p, rt, uint64(round*1000+i*iters+k)))
					}
				}
				var wg sync.WaitGroup
				var mu sync.Mutex
				start := make(chan struct{})
				for i := 0; i < n; i++ {
					i := i
					wg.Add(1)
					go func() {
						defer wg.Done()
						<-start
						for k := 0; k < iters; k++ {
							if got := guard(workerFor(p, rt, uint64(round*1000+i*iters+k))); got != want[i][k] {
								mu.Lock()
								report("steady state flags %v round %d goroutine %d call %d: got %s want %s", fl, round, i, k, clip(got, 300), clip(want[i][k], 300))
								mu.Unlock()
								return
							}
						}
					}()
				}
				close(start)
				wg.Wait()
			}
		}
	case "C19":
		for round := 0; round < rounds; round++ {
			p := &plenc.Plenc{}
			p.RegisterDefaultCodecs()
			if _, err := p.CodecForType(reflect.TypeOf(internHolder{})); err != nil {
				report("build: %v", err)
				return bad
			}
			n := 2 + round%4
			var wg sync.WaitGroup
			start := make(chan struct{})
			for i := 0; i < n; i++ {
				i := i
				wg.Add(1)
				go func() {
					defer wg.Done()
					<-start
					r := NewRNG(uint64(round*31 + i))
					for k := 0; k < 200; k++ {
						d := []byte(fmt.Sprintf("v%d", r.Intn(40+round%100+(round%7)*90))) // up to ~700 distinct values: past any small-table strategy
						buf := append(refTag(1, 2), lenPrefixed(d)...)
						var v internHolder
						if err := p.Unmarshal(buf, &v); err != nil {
							report("decode: %v", err)
							return
						}
						want := string(d)
						for j := range buf {
							buf[j] = 0xAA
						}
						if v.S != want {
							report("round %d goroutine %d: interned decode returned %q for %q", round, i, v.S, want)
							return
						}
					}
				}()
			}
			close(start)
			wg.Wait()
		}
		// a table that keeps growing past any reset / strategy threshold one might pick (4096, 8192) while
		// other goroutines look up values that are already in it
		for rep := 0; rep < 1; rep++ {
			p := &plenc.Plenc{}
			p.RegisterDefaultCodecs()
			decode := func(s string) string {
				buf := append(refTag(1, 2), lenPrefixed([]byte(s))...)
				var v internHolder
				if err := p.Unmarshal(buf, &v); err != nil {
					return "error " + err.Error()
				}
				for j := range buf {
					buf[j] = 0xAA
				}
				return v.S
			}
			for k := 0; k < 5; k++ {
				decode(fmt.Sprintf("known-%d", k))
			}
			stop := make(chan struct{})
			var wg sync.WaitGroup
			for gi := 0; gi < 4; gi++ {
				wg.Add(1)
				go func() {
					defer wg.Done()
					for k := 0; ; k++ {
						select {
						case <-stop:
							return
						default:
						}
						want := fmt.Sprintf("known-%d", k%5)
						if got := decode(want); got != want {
							report("reader of a growing table: got %q want %q", got, want)
							return
						}
					}
				}()
			}
			grow := 5000
			if rounds >= 1000 {
				grow = 17000
			}
			for k := 0; k < grow; k++ {
				want := fmt.Sprintf("grow-%05d", k)
				if got := decode(want); got != want {
					report("writer of a growing table: got %q want %q", got, want)
					break
				}
			}
			close(stop)
			wg.Wait()
		}
	default:
		fmt.Println("race mode: nothing to do for", prop)
	}
	fmt.Printf("race-mode rounds=%d failures=%d\n", rounds, bad)
	return bad
}
