package main

import "reflect"

// splitmix64: every random choice in a run derives from one state seeded by VERIF_SEED.
type RNG struct{ s uint64 }

func NewRNG(seed uint64) *RNG { return &RNG{s: seed*0x9E3779B97F4A7C15 + 0x1234567} }

func (r *RNG) U64() uint64 {
	r.s += 0x9E3779B97F4A7C15
	z := r.s
	z = (z ^ (z >> 30)) * 0xBF58476D1CE4E5B9
	z = (z ^ (z >> 27)) * 0x94D049BB133111EB
	return z ^ (z >> 31)
}

func (r *RNG) Intn(n int) int {
	if n <= 0 {
		return 0
	}
	return int(r.U64() % uint64(n))
}

func (r *RNG) Bool() bool               { return r.U64()&1 == 1 }
func (r *RNG) P(pct int) bool           { return r.Intn(100) < pct }
func (r *RNG) Pick(xs ...string) string { return xs[r.Intn(len(xs))] }

func (r *RNG) PickT(xs ...*TyDef) *TyDef { return xs[r.Intn(len(xs))] }

func (r *RNG) Bytes(n int) []byte {
	b := make([]byte, n)
	for i := range b {
		b[i] = byte(r.U64())
	}
	return b
}

// Fork derives an independent stream (used so that adding ops to one family does
// not reshuffle another).
func (r *RNG) Fork(label uint64) *RNG { return NewRNG(r.U64() ^ label) }

func (r *RNG) PickRT(xs ...reflect.Type) reflect.Type { return xs[r.Intn(len(xs))] }
