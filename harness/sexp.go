package main

import (
	"encoding/hex"
	"fmt"
	"strings"
)

// Sexp is the line protocol's syntax: atoms and lists.
type Sexp struct {
	Atom string
	List []*Sexp
	IsL  bool
}

func A(s string) *Sexp       { return &Sexp{Atom: s} }
func L(items ...*Sexp) *Sexp { return &Sexp{List: items, IsL: true} }
func hx(b []byte) string     { return "x" + hex.EncodeToString(b) }
func hxs(s string) string    { return hx([]byte(s)) }
func unhx(s string) ([]byte, error) {
	if !strings.HasPrefix(s, "x") {
		return nil, fmt.Errorf("not hex: %q", s)
	}
	return hex.DecodeString(s[1:])
}

func (s *Sexp) String() string {
	var b strings.Builder
	s.write(&b)
	return b.String()
}

func (s *Sexp) write(b *strings.Builder) {
	if !s.IsL {
		b.WriteString(s.Atom)
		return
	}
	b.WriteByte('(')
	for i, x := range s.List {
		if i > 0 {
			b.WriteByte(' ')
		}
		x.write(b)
	}
	b.WriteByte(')')
}

func parseSexp(line string) (*Sexp, error) {
	toks := tokenize(line)
	if len(toks) == 0 {
		return nil, fmt.Errorf("empty")
	}
	s, rest, err := parseTokens(toks)
	if err != nil {
		return nil, err
	}
	if len(rest) != 0 {
		return nil, fmt.Errorf("trailing tokens")
	}
	return s, nil
}

func tokenize(s string) []string {
	var out []string
	cur := strings.Builder{}
	flush := func() {
		if cur.Len() > 0 {
			out = append(out, cur.String())
			cur.Reset()
		}
	}
	for i := 0; i < len(s); i++ {
		c := s[i]
		switch c {
		case '(', ')':
			flush()
			out = append(out, string(c))
		case ' ', '\n', '\t', '\r':
			flush()
		default:
			cur.WriteByte(c)
		}
	}
	flush()
	return out
}

func parseTokens(toks []string) (*Sexp, []string, error) {
	if toks[0] == "(" {
		toks = toks[1:]
		var items []*Sexp
		for {
			if len(toks) == 0 {
				return nil, nil, fmt.Errorf("unterminated list")
			}
			if toks[0] == ")" {
				return &Sexp{List: items, IsL: true}, toks[1:], nil
			}
			it, rest, err := parseTokens(toks)
			if err != nil {
				return nil, nil, err
			}
			items = append(items, it)
			toks = rest
		}
	}
	if toks[0] == ")" {
		return nil, nil, fmt.Errorf("unexpected )")
	}
	return A(toks[0]), toks[1:], nil
}

func (s *Sexp) head() string {
	if s.IsL && len(s.List) > 0 && !s.List[0].IsL {
		return s.List[0].Atom
	}
	return ""
}
