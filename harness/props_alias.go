package main

import (
	"bytes"
	"reflect"
	"strconv"
	"unsafe"
)

func init() { propRunners["C11"] = runC11 }

var lastAliasOracle []string

// scrambleBytes overwrites every byte slice reachable from the value (strings are immutable in Go).
func scrambleBytes(rv reflect.Value) {
	switch rv.Kind() {
	case reflect.Ptr:
		if !rv.IsNil() {
			scrambleBytes(rv.Elem())
		}
	case reflect.Slice:
		if rv.Type().Elem().Kind() == reflect.Uint8 {
			b := rv.Bytes()
			for i := range b {
				b[i] = 0xEE
			}
			return
		}
		for i := 0; i < rv.Len(); i++ {
			scrambleBytes(rv.Index(i))
		}
	case reflect.Struct:
		if rv.Type() == timeType {
			return
		}
		for i := 0; i < rv.NumField(); i++ {
			if rv.Type().Field(i).IsExported() {
				scrambleBytes(rv.Field(i))
			}
		}
	case reflect.Map:
		it := rv.MapRange()
		for it.Next() {
			if it.Value().Kind() == reflect.Slice && it.Value().Type().Elem().Kind() == reflect.Uint8 {
				b := it.Value().Bytes()
				for i := range b {
					b[i] = 0xEE
				}
			}
		}
	}
}

// execAlias: (alias cfg T tag V)
func execAlias(s *Sexp) string {
	lastAliasOracle = nil
	c, err := parseCtx(s)
	if err != nil {
		return "bad-op " + err.Error()
	}
	v, err := parseVal(s.List[4])
	if err != nil {
		return "bad-op " + err.Error()
	}
	return guard(func() string {
		if _, err := c.codec(); err != nil {
			return "builderr"
		}
		src, err := c.newValue(v)
		if err != nil {
			return "bad-op " + err.Error()
		}
		// --- Marshal: value and prefix untouched, output independent of the value
		before := FromReflect(src.Elem(), c.td).String()
		prefix := []byte{1, 2, 3, 4, 5}
		buf := make([]byte, len(prefix), 4096)
		copy(buf, prefix)
		region := buf[:cap(buf)]
		for i := len(prefix); i < len(region); i++ {
			region[i] = 0x77
		}
		var out []byte
		if c.tag == "" {
			out, err = c.p.Marshal(buf, src.Interface())
		} else {
			out, err = c.marshalPtr(src)
			out = append(append([]byte(nil), prefix...), out...)
		}
		if err != nil {
			return "err"
		}
		if !bytes.Equal(out[:len(prefix)], prefix) {
			lastAliasOracle = append(lastAliasOracle, "Marshal modified the destination buffer below its length")
		}
		if after := FromReflect(src.Elem(), c.td).String(); after != before {
			lastAliasOracle = append(lastAliasOracle, "Marshal modified the value it was given")
		}
		snapshot := append([]byte(nil), out...)
		// and into empty destinations with no or little room (a re-used scratch buffer)
		var smalls, smallSnaps [][]byte
		if c.tag == "" {
			for _, dst := range [][]byte{{}, make([]byte, 0, 1), make([]byte, 0, 3)} {
				o2, err := c.p.Marshal(dst, src.Interface())
				if err != nil {
					return "err"
				}
				if !multiEntryMaps(v) && !bytes.Equal(o2, snapshot[len(prefix):]) {
					lastAliasOracle = append(lastAliasOracle, "Marshal into an empty buffer differs from Marshal after a prefix")
				}
				smalls = append(smalls, o2)
				smallSnaps = append(smallSnaps, append([]byte(nil), o2...))
			}
		}
		scrambleBytes(src.Elem())
		for i, o2 := range smalls {
			if !bytes.Equal(o2, smallSnaps[i]) {
				lastAliasOracle = append(lastAliasOracle, "Marshal's output (empty destination buffer) shares memory with the value")
			}
		}
		if !bytes.Equal(out, snapshot) {
			lastAliasOracle = append(lastAliasOracle, "Marshal's output shares memory with the value (changed when the value's byte slices were overwritten)")
		}
		// --- Unmarshal: input untouched, decoded value independent of the input buffer
		data := append([]byte(nil), snapshot[len(prefix):]...)
		dataCopy := append([]byte(nil), data...)
		dst := reflect.New(c.rt)
		if err := c.unmarshalPtr(data, dst); err != nil {
			return "err"
		}
		if !bytes.Equal(data, dataCopy) {
			lastAliasOracle = append(lastAliasOracle, "Unmarshal modified its input")
		}
		// no string and no slice of the decoded value — its spare capacity included — lies in the input buffer
		if len(data) > 0 {
			lo := uintptr(unsafe.Pointer(unsafe.SliceData(data)))
			hi := lo + uintptr(cap(data))
			for _, r := range memRanges(dst.Elem()) {
				if r[0] < hi && lo < r[1] {
					lastAliasOracle = append(lastAliasOracle, "a decoded string or slice (capacity included) points into the input buffer")
					break
				}
			}
		}
		s1 := FromReflect(dst.Elem(), c.td).String()
		for i := range data {
			data[i] = 0xAA
		}
		s2 := FromReflect(dst.Elem(), c.td).String()
		if s1 != s2 {
			lastAliasOracle = append(lastAliasOracle, "decoded value changed when the input buffer was overwritten: "+s1+" -> "+s2)
		}
		// a second decode into the SAME target (keys and elements already present) from another buffer,
		// which is then overwritten too
		data2 := append([]byte(nil), dataCopy...)
		if err := c.unmarshalPtr(data2, dst); err == nil {
			t1 := FromReflect(dst.Elem(), c.td).String()
			if len(data2) > 0 {
				lo := uintptr(unsafe.Pointer(unsafe.SliceData(data2)))
				hi := lo + uintptr(cap(data2))
				for _, r := range memRanges(dst.Elem()) {
					if r[0] < hi && lo < r[1] {
						lastAliasOracle = append(lastAliasOracle, "after decoding into an already populated target, a string or slice points into the input buffer")
						break
					}
				}
			}
			for i := range data2 {
				data2[i] = 0x55
			}
			if t2 := FromReflect(dst.Elem(), c.td).String(); t1 != t2 {
				lastAliasOracle = append(lastAliasOracle, "value decoded into a populated target changed when the input buffer was overwritten: "+t1+" -> "+t2)
			}
		}
		// the caller re-uses its buffer for another message of the same shape (same lengths, other
		// contents) and decodes that into a fresh variable: it must get the new contents
		if v2 := sameLen(v); !multiEntryMaps(v) {
			if src2, err := c.newValue(v2); err == nil {
				if enc2, err := c.marshalPtr(src2); err == nil && len(enc2) == len(data) {
					copy(data, enc2)
					fresh := reflect.New(c.rt)
					if err := c.unmarshalPtr(data, fresh); err != nil {
						lastAliasOracle = append(lastAliasOracle, "decoding the re-used buffer failed")
					} else if got, want := FromReflect(fresh.Elem(), c.td).String(), normPos(c.td, v2, c.tag == "proto").String(); got != want {
						lastAliasOracle = append(lastAliasOracle, "after the buffer was re-used for another message, decoding it gave "+got+" want "+want)
					}
				}
			}
		}
		return "ok " + s2
	})
}

func oracleAlias(op *Sexp, res string) []string { return lastAliasOracle }

func runC11(r *Runner, g *Gen, tier string) string {
	n := scale(tier, 3000, 400000)
	// the input of a decode is memory the TARGET holds (an envelope unwrapped in place); JSON-any values
	for _, k := range []string{"bytes", "map", "blob"} {
		r.Do(L(A("unwrap"), A(k)), true, "unwrap")
	}
	r.Do(L(A("jalias")), true, "jalias")
	for i := 0; i < n; i++ {
		cfg := g.pickCfg()
		t := g.topType(3)
		if g.r.P(8) {
			t = Slice(B("uint8")) // top-level []byte
		}
		if knownShape(cfg, t, false) {
			continue
		}
		b := 40
		v := g.Value(t, &b)
		r.Do(codecOp("alias", cfg, t, "", v.Sexp()), nontrivialVal(t, v), "alias")
	}
	return "generated types and values (strings, byte slices, interned strings, string- and struct-keyed maps at every depth); op = Marshal into a buffer with a prefix and 4 KiB spare capacity, overwrite every byte slice of the value, then Unmarshal a copy of the encoding, overwrite the input buffer with 0xAA and read the decoded value again; compared with the model's provenance-labelled decoder observed under the overwritten buffer; oracle: prefix intact, value intact, output and decoded value unchanged by the overwrites, input unchanged"
}

// memRanges: the address ranges [lo, hi) of every string and every slice backing
// array (up to its capacity) reachable from the value.
func memRanges(rv reflect.Value) [][2]uintptr {
	var out [][2]uintptr
	var walk func(rv reflect.Value)
	walk = func(rv reflect.Value) {
		switch rv.Kind() {
		case reflect.String:
			if rv.Len() > 0 {
				s := rv.String()
				p := uintptr(unsafe.Pointer(unsafe.StringData(s)))
				out = append(out, [2]uintptr{p, p + uintptr(len(s))})
			}
		case reflect.Ptr:
			if !rv.IsNil() {
				walk(rv.Elem())
			}
		case reflect.Slice:
			if rv.IsNil() {
				return
			}
			if rv.Cap() > 0 {
				p := rv.Pointer()
				out = append(out, [2]uintptr{p, p + uintptr(rv.Cap())*rv.Type().Elem().Size()})
			}
			for i := 0; i < rv.Len(); i++ {
				walk(rv.Index(i))
			}
		case reflect.Struct:
			if rv.Type() == timeType {
				return
			}
			for i := 0; i < rv.NumField(); i++ {
				if rv.Type().Field(i).IsExported() {
					walk(rv.Field(i))
				}
			}
		case reflect.Map:
			it := rv.MapRange()
			for it.Next() {
				walk(it.Key())
				walk(it.Value())
			}
		}
	}
	walk(rv)
	return out
}

// badSliceHeaders: every slice reachable from the value must have cap >= len (a
// decoder that builds slice headers by hand can get this wrong without any
// element being wrong).
func badSliceHeaders(rv reflect.Value) string {
	msg := ""
	var walk func(rv reflect.Value)
	walk = func(rv reflect.Value) {
		if msg != "" {
			return
		}
		switch rv.Kind() {
		case reflect.Ptr:
			if !rv.IsNil() {
				walk(rv.Elem())
			}
		case reflect.Slice:
			if rv.Cap() < rv.Len() {
				msg = "a decoded slice has len " + strconv.Itoa(rv.Len()) + " but cap " + strconv.Itoa(rv.Cap())
				return
			}
			if rv.Type().Elem().Kind() == reflect.Uint8 {
				return
			}
			for i := 0; i < rv.Len(); i++ {
				walk(rv.Index(i))
			}
		case reflect.Struct:
			if rv.Type() == timeType {
				return
			}
			for i := 0; i < rv.NumField(); i++ {
				if rv.Type().Field(i).IsExported() {
					walk(rv.Field(i))
				}
			}
		case reflect.Map:
			it := rv.MapRange()
			for it.Next() {
				walk(it.Key())
				walk(it.Value())
			}
		}
	}
	walk(rv)
	return msg
}

// sameLen: the same value with every string and byte slice replaced by other bytes
// of the same length (an injective change, so map keys stay distinct).
func sameLen(v *Val) *Val {
	switch v.K {
	case "s", "y":
		d := make([]byte, len(v.Data))
		for i, b := range v.Data {
			d[i] = b ^ 0x01
		}
		return &Val{K: v.K, Data: d}
	case "p":
		if v.P == nil {
			return v
		}
		return &Val{K: "p", P: sameLen(v.P)}
	case "l", "r":
		out := &Val{K: v.K}
		for _, e := range v.L {
			out.L = append(out.L, sameLen(e))
		}
		return out
	case "m":
		out := &Val{K: "m"}
		for _, e := range v.M {
			out.M = append(out.M, [2]*Val{sameLen(e[0]), sameLen(e[1])})
		}
		return out
	}
	return v
}
