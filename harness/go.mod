module verif/harness

go 1.21

require (
	github.com/philpearl/plenc v0.0.0
	github.com/unravelin/null v2.1.2+incompatible
)

require (
	github.com/josharian/intern v1.0.0 // indirect
	github.com/mailru/easyjson v0.7.7 // indirect
)

replace github.com/philpearl/plenc => /repo

replace github.com/unravelin/null => github.com/unravelin/null/v4 v4.2.0
