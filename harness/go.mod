module verif/harness

go 1.18

require github.com/philpearl/plenc v0.0.0

replace github.com/philpearl/plenc => /repo

replace github.com/unravelin/null => github.com/unravelin/null/v4 v4.2.0
