package main

import "strings"

// accepts: an independent statement, written from the property text and the
// README, of which type definitions plenc accepts (C08). cfg: protoArrays flag and
// whether package null's codecs are registered. Only accept/reject is decided
// here; the shape of an accepted codec is judged by the model (and by C14's
// expected descriptor).
type buildSpec struct {
	protoArrays bool
	null        bool
	// strict: a tag option must select something for the type it is on ("a tag option with no
	// matching codec" is an error): `proto` on slices and maps only, `intern` on strings only,
	// nothing on structs. plenc ignores such options instead (finding F14); the non-strict
	// spec ignores them too, so that everything else about the definition is still judged.
	strict bool
}

// internable: a string, a defined string type, a pointer to one, or a null.String
func internable(t *TyDef) bool {
	for t.K == "named" || t.K == "ptr" {
		t = t.Elem
	}
	return t.K == "str" || (t.K == "ext" && t.Name == "null.String")
}

func tyKind(t *TyDef) string {
	for t.K == "named" {
		t = t.Elem
	}
	switch t.K {
	case "time", "ext":
		return "struct"
	}
	return t.K
}

func isSignedInt(k string) bool {
	switch k {
	case "int", "int8", "int16", "int32", "int64":
		return true
	}
	return false
}

func isScalarKind(k string) bool {
	switch k {
	case "bool", "int", "int8", "int16", "int32", "int64", "uint", "uint8", "uint16", "uint32", "uint64", "f32", "f64", "str":
		return true
	}
	return false
}

// basicOK: the predeclared scalar types have codecs under no option; signed
// integers also under "flat", strings under "intern"; nothing else.
func basicOK(k, opt string) bool {
	switch opt {
	case "":
		return true
	case "flat":
		return isSignedInt(k)
	case "intern":
		return k == "str"
	}
	return false
}

// specAtoi: a plenc index is what strconv.Atoi accepts: optional sign, ASCII
// decimal digits only, within int64.
func specAtoi(s string) (int64, bool) {
	neg := false
	if strings.HasPrefix(s, "+") || strings.HasPrefix(s, "-") {
		neg = s[0] == '-'
		s = s[1:]
	}
	if s == "" || len(s) > 30 {
		return 0, false
	}
	var v uint64
	for i := 0; i < len(s); i++ {
		c := s[i]
		if c < '0' || c > '9' {
			return 0, false
		}
		if v > (1<<63)/10+1 {
			return 0, false
		}
		v = v*10 + uint64(c-'0')
		if v > 1<<63 {
			return 0, false
		}
	}
	if neg {
		return -int64(v), true // v == 1<<63 gives MinInt64
	}
	if v >= 1<<63 {
		return 0, false
	}
	return int64(v), true
}

func (b buildSpec) accepts(t *TyDef, opt string, named bool) bool {
	switch t.K {
	case "named":
		return b.accepts(t.Elem, opt, true)
	case "bad":
		return false
	case "time":
		if named {
			return true // a defined type over time.Time is a struct without exported fields
		}
		return opt == ""
	case "ext":
		return !named && b.null && opt == ""
	case "ptr":
		if tyKind(t.Elem) == "map" {
			return false
		}
		return b.accepts(t.Elem, opt, false)
	case "slice":
		if !named && t.Elem.K == "uint8" && opt == "" {
			return true // []byte
		}
		if b.strict && opt != "" && (opt != "proto" || (!named && t.Elem.K == "uint8")) {
			return false
		}
		if tyKind(t.Elem) == "map" || !b.accepts(t.Elem, "", false) {
			return false
		}
		if (refEnc{}).wt(t.Elem, "") == 3 {
			// slices of slices of length-delimited elements (also behind pointers): whatever the options —
			// in the protobuf repeated form the inner slices would not even be delimited
			return false
		}
		switch (refEnc{protoArrays: b.protoArrays}).wt(t.Elem, "") {
		case 0, 2:
			return true
		case 1, 5:
			k := tyKind(t.Elem)
			return k == "f32" || k == "f64" // not pointers to floats, not nullable floats
		}
		return false // slices of slices of length-delimited elements, slices of maps
	case "map":
		if tyKind(t.Elem) == "map" {
			return false
		}
		if b.strict && opt != "" && opt != "proto" {
			return false
		}
		if !b.accepts(t.Key, "", false) || !b.accepts(t.Elem, "", false) {
			return false
		}
		// values that are slices of length-delimited elements (also behind pointers): in the repeated
		// form an entry would hold one value field per element, which no map entry can
		return !(b.protoArrays && ((refEnc{}).wt(t.Elem, "") == 3 || (refEnc{}).wt(t.Key, "") == 3))
	case "struct":
		if b.strict && opt != "" {
			return false
		}
		seen := map[int64]bool{}
		dup := false
		for _, f := range t.Fields {
			if !f.Exported {
				continue
			}
			if f.Plenc == "" {
				return false
			}
			if f.Plenc == "-" {
				continue
			}
			idxS, fopt := f.Plenc, ""
			if c := strings.IndexByte(f.Plenc, ','); c >= 0 {
				idxS, fopt = f.Plenc[:c], f.Plenc[c+1:]
			}
			idx, ok := specAtoi(idxS)
			if !ok || idx < 0 || idx > 1<<29-1 {
				return false
			}
			if fopt == "intern" {
				if b.strict && !internable(f.T) {
					return false
				}
				fopt = "" // not a codec selector: asks a string codec to intern
			}
			if !b.accepts(f.T, fopt, false) {
				return false
			}
			if seen[idx] {
				dup = true
			}
			seen[idx] = true
		}
		return !dup
	}
	if isScalarKind(t.K) {
		return basicOK(t.K, opt)
	}
	return false
}

func oracleBuild(op *Sexp, res string) []string {
	if len(op.List) < 4 {
		return nil
	}
	cfg := op.List[1]
	flags := cfg.Atom
	null := false
	if cfg.IsL {
		if len(cfg.List) < 2 {
			return nil
		}
		flags = cfg.List[1].Atom
		for _, it := range cfg.List[2:] {
			if !it.IsL && it.Atom == "null" {
				null = true
			} else {
				return nil // user registrations: C17's subject
			}
		}
	}
	td, err := parseTyDef(op.List[2])
	tag, err2 := unhx(op.List[3].Atom)
	if err != nil || err2 != nil || len(flags) != 2 {
		return nil
	}
	want := buildSpec{protoArrays: flags[1] == '1', null: null}.accepts(td, string(tag), false)
	got := strings.HasPrefix(res, "ok ")
	if !got && res != "err" {
		return []string{"CodecForType outcome " + res}
	}
	if got && want && !(buildSpec{protoArrays: flags[1] == '1', null: null, strict: true}).accepts(td, string(tag), false) {
		return []string{"F14 a tag option with no matching codec (an option on a slice, map or struct that selects nothing; `intern` on a type that is not a string) is accepted and silently ignored instead of being an error: " + clip(res, 200)}
	}
	if got != want {
		if want {
			return []string{"a definition the documentation accepts was rejected"}
		}
		return []string{"a definition that must be rejected was accepted: " + res}
	}
	return nil
}
