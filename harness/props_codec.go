package main

import (
	"encoding/binary"
	"fmt"
	"math"
	"strings"
)

// ---- reference encoder: written from README.md / the comments of wire.go /
// the property text of C02, independent of plenc and of the Lean model ---------

type refEnc struct {
	protoTime, protoArrays bool
	// custom: "typeName|tag" keys for which the instance has a registered marker
	// codec (C17 scripts): a plain varint of the two's complement value at the
	// type's width, i.e. what the "flat" option means
	custom map[string]bool
}

func refTag(idx int, wt int) []byte { return refVarint(uint64(idx)<<3 | uint64(wt)) }

// wire type of a type in a given position. opt is the tag option applying to it.
func (e refEnc) wt(t *TyDef, opt string) int {
	if t.K == "ext" {
		return e.wt(extPayload[t.Name], opt)
	}
	u := t
	for u.K == "named" {
		if u.Elem.K == "time" {
			return 2 // struct with no encodable fields
		}
		u = u.Elem
	}
	switch u.K {
	case "bool", "int", "int8", "int16", "int32", "int64", "uint", "uint8", "uint16", "uint32", "uint64":
		return 0
	case "f64":
		return 1
	case "f32":
		return 5
	case "str", "time", "struct":
		return 2
	case "ptr":
		return e.wt(u.Elem, opt)
	case "slice":
		if u.isBytes() && t.K != "named" {
			return 2
		}
		if e.wt(u.Elem, "") == 2 && !(e.protoArrays || opt == "proto") {
			return 3
		}
		return 2
	case "map":
		if opt == "proto" {
			return 2
		}
		return 3
	}
	panic("wt " + u.K)
}

func lenPrefixed(b []byte) []byte { return append(refVarint(uint64(len(b))), b...) }

// body: the encoding of a present value without tag or length prefix.
func (e refEnc) body(t *TyDef, v *Val, opt string) []byte {
	if t.K == "ext" {
		if t.Name == "null.Time" {
			e.protoTime = false // package null always uses the original time codec
		}
		return e.body(extPayload[t.Name], v.P, "")
	}
	if t.K == "named" {
		if t.Elem.K == "time" {
			return nil
		}
		if t.Elem.isBytes() {
			// defined type over []byte: a packed slice of uint8 varints
			var out []byte
			for _, x := range v.Data {
				out = append(out, refVarint(uint64(x))...)
			}
			return out
		}
		if e.custom[t.Name+"|"+opt] {
			c := e
			c.custom = nil
			return c.body(t.Elem, v, "flat")
		}
		return e.body(t.Elem, v, opt)
	}
	if e.custom[goBasicName(t.K)+"|"+opt] {
		c := e
		c.custom = nil
		return c.body(t, v, "flat")
	}
	switch t.K {
	case "bool":
		if v.B {
			return []byte{1}
		}
		return []byte{0}
	case "int", "int8", "int16", "int32", "int64":
		if opt == "flat" {
			mask := ^uint64(0)
			if w := bitsOf(t.K); w < 64 {
				mask = 1<<uint(w) - 1
			}
			return refVarint(uint64(v.I) & mask)
		}
		return refVarint(refZigZag(v.I))
	case "uint", "uint8", "uint16", "uint32", "uint64":
		return refVarint(v.U)
	case "f32":
		b := make([]byte, 4)
		binary.LittleEndian.PutUint32(b, uint32(v.U))
		return b
	case "f64":
		b := make([]byte, 8)
		binary.LittleEndian.PutUint64(b, v.U)
		return b
	case "str":
		return v.Data
	case "time":
		var out []byte
		if e.protoTime {
			out = append(out, refTag(1, 0)...)
			out = append(out, refVarint(uint64(v.Sec))...)
			out = append(out, refTag(2, 0)...)
			out = append(out, refVarint(uint64(uint32(v.Nsec)))...)
		} else {
			out = append(out, refTag(1, 0)...)
			out = append(out, refVarint(refZigZag(v.Sec))...)
			out = append(out, refTag(2, 0)...)
			out = append(out, refVarint(refZigZag(v.Nsec))...)
		}
		return out
	case "ptr":
		return e.body(t.Elem, v.P, opt)
	case "slice":
		if t.isBytes() {
			return v.Data
		}
		ewt := e.wt(t.Elem, "")
		var out []byte
		if ewt == 2 && !(e.protoArrays || opt == "proto") {
			// WTSlice: count, then each element with its own length prefix
			out = refVarint(uint64(len(v.L)))
			for _, x := range v.L {
				out = append(out, lenPrefixed(e.elemBody(t.Elem, x))...)
			}
			return out
		}
		// packed scalars
		for _, x := range v.L {
			out = append(out, e.elemBody(t.Elem, x)...)
		}
		return out
	case "struct":
		var out []byte
		j := 0
		for _, f := range t.Fields {
			if !fieldEncoded(f) {
				continue
			}
			idx, fopt := splitTag(f.Plenc)
			out = append(out, e.field(idx, f.T, v.L[j], fopt)...)
			j++
		}
		return out
	case "map":
		// count, then each entry length-prefixed: key = field 1, value = field 2
		out := refVarint(uint64(len(v.M)))
		for _, kv := range v.M {
			out = append(out, lenPrefixed(e.entry(t, kv))...)
		}
		return out
	}
	panic("body " + t.K)
}

func (e refEnc) entry(t *TyDef, kv [2]*Val) []byte {
	return append(e.field(1, t.Key, kv[0], ""), e.field(2, t.Elem, kv[1], "")...)
}

// elemBody: a slice element; a nil pointer element contributes nothing.
func (e refEnc) elemBody(t *TyDef, v *Val) []byte {
	if k := t.under().K; (k == "ptr" || k == "ext") && v.P == nil {
		return nil // an invalid null value writes nothing either
	}
	return e.body(t, v, "")
}

func splitTag(tag string) (int, string) {
	opt := ""
	if i := strings.IndexByte(tag, ','); i >= 0 {
		opt = tag[i+1:]
		tag = tag[:i]
	}
	idx := 0
	fmt.Sscanf(tag, "%d", &idx)
	return idx, opt
}

// field: a tagged field, omitted when the value has no presence.
func (e refEnc) field(idx int, t *TyDef, v *Val, opt string) []byte {
	if omitted(t, v) {
		return nil
	}
	u := t.under()
	if u.K == "ptr" {
		// the pointee is written as a field of its own type, present even when zero
		return e.present(idx, t.under().Elem, v.P, opt)
	}
	if u.K == "ext" {
		if u.Name == "null.Time" {
			e.protoTime = false
		}
		return e.present(idx, extPayload[u.Name], v.P, "")
	}
	return e.present(idx, t, v, opt)
}

func (e refEnc) present(idx int, t *TyDef, v *Val, opt string) []byte {
	u := t.under()
	if u.K == "ptr" {
		if v.P == nil {
			return nil
		}
		return e.present(idx, u.Elem, v.P, opt)
	}
	wt := e.wt(t, opt)
	// repeated forms: one tagged, length-prefixed record per element / entry
	if u.K == "slice" && !(u.isBytes() && t.K != "named") && e.wt(u.Elem, "") == 2 && (e.protoArrays || opt == "proto") {
		var out []byte
		for _, x := range v.L {
			out = append(out, refTag(idx, 2)...)
			out = append(out, lenPrefixed(e.elemBody(u.Elem, x))...)
		}
		return out
	}
	if u.K == "map" && opt == "proto" {
		var out []byte
		for _, kv := range v.M {
			out = append(out, refTag(idx, 2)...)
			out = append(out, lenPrefixed(e.entry(u, kv))...)
		}
		return out
	}
	out := refTag(idx, wt)
	b := e.body(t, v, opt)
	if wt == 2 {
		return append(out, lenPrefixed(b)...)
	}
	return append(out, b...)
}

// top: Marshal(nil, v): nothing when the value has no presence, else the bare body.
func (e refEnc) top(t *TyDef, v *Val, opt string) []byte {
	if omitted(t, v) {
		return nil
	}
	if t.under().K == "ptr" {
		return e.top(t.under().Elem, v.P, opt)
	}
	return e.body(t, v, opt)
}

func cfgRef(cfg string) refEnc { return refEnc{protoTime: cfg[0] == '1', protoArrays: cfg[1] == '1'} }

// ---- streams -------------------------------------------------------------------

var cfgs = []string{"00", "01", "10", "11"}

func (g *Gen) pickCfg() string {
	c := cfgs[g.r.Intn(4)]
	if g.r.P(40) {
		c = "00"
	}
	g.proto = c[1] == '1'
	return c
}

func nontrivialVal(t *TyDef, v *Val) bool {
	// exercises a container, pointer or multi-byte scalar
	s := v.String()
	return strings.Contains(s, "(l (") || strings.Contains(s, "(m (") || strings.Contains(s, "(p (") ||
		strings.Contains(s, "(r (") || len(s) > 40
}

func codecOp(name, cfg string, t *TyDef, tag string, rest ...*Sexp) *Sexp {
	var c *Sexp = A(cfg)
	if strings.HasPrefix(cfg, "(") {
		c, _ = parseSexp(cfg)
	}
	items := []*Sexp{A(name), c, t.Sexp(), A(hxs(tag))}
	return L(append(items, rest...)...)
}

func init() {
	propRunners["C01"] = runC01
	propRunners["C02"] = runC02
	propRunners["C05"] = runC05
}

func runC01(r *Runner, g *Gen, tier string) string {
	n := scale(tier, 4000, 300000)
	g.ptrSlices = true // pointers to slices under the proto options too (the empty pointee is finding F13)
	for i := 0; i < n; i++ {
		cfg := g.pickCfg()
		t, v := g.sample(cfg, 3)
		if g.r.P(6) {
			// pointer-shaped structs: Marshal by value takes the value out of the interface word itself
			t = g.ifaceShaped()
			b := 20
			v = g.Value(t, &b)
		}
		r.Do(codecOp("rt", cfg, t, "", v.Sexp()), nontrivialVal(t, v), "rt")
	}
	// map keys outside the proved fragment (`keySafe`): floats, times, structs containing them, null values.
	// Keys are distinct, finite and non-zero (±0 are one Go key, NaN is none), times are UTC instants.
	for i := 0; i < scale(tier, 200, 15000); i++ {
		cfg := g.pickCfg()
		var kt *TyDef
		mk := func(j int) *Val { return nil }
		f64 := func(j int) *Val { return &Val{K: "f64", U: math.Float64bits(float64(j+1)*1.5 - 3.25)} }
		tm := func(j int) *Val { return &Val{K: "T", Sec: int64(j)*86400*365 - 5, Nsec: int64(j) * 999999999 / 7} }
		switch g.r.Intn(5) {
		case 0:
			kt, mk = B("f64"), f64
		case 1:
			kt, mk = B("f32"), func(j int) *Val { return &Val{K: "f32", U: uint64(math.Float32bits(float32(j+1) * 0.75))} }
		case 2:
			kt, mk = &TyDef{K: "time"}, tm
		case 3:
			kt = Struct(F("F", "1", B("f64")), F("S", "2", B("str")), F("T", "3", &TyDef{K: "time"}))
			mk = func(j int) *Val {
				return &Val{K: "r", L: []*Val{f64(j), {K: "s", Data: []byte{byte('a' + j%3)}}, tm(j / 2)}}
			}
		default:
			kt, mk = named("MyF64"), f64
		}
		vt := g.valueType(0)
		for vt.under().K == "map" {
			vt = B("str")
		}
		m := &Val{K: "m"}
		for j, n := 0, g.r.Intn(4); j < n; j++ {
			b := 8
			m.M = append(m.M, [2]*Val{mk(j), g.Value(vt, &b)})
		}
		t := Struct(F("M", "1", Map(kt, vt)), F("X", "2", B("int")))
		if g.r.P(30) && !g.proto {
			t = Struct(&FieldDef{Name: "M", Exported: true, Plenc: "3,proto", T: Map(kt, vt)})
		}
		if knownShape(cfg, Struct(F("V", "1", vt)), false) {
			continue
		}
		r.Do(codecOp("rt", cfg, t, "", (&Val{K: "r", L: append([]*Val{m}, zeroVal(t).L[1:]...)}).Sexp()), len(m.M) > 0, "rt.wide-keys")
	}
	// pointers that only the decoded slice keeps alive: still there after garbage collections
	for _, k := range []string{"int64", "bool", "str", "struct"} {
		r.Do(L(A("gcptrs"), A(k), A(fmt.Sprint(scale(tier, 3000, 20000)))), true, "gcptrs")
	}
	// maps with pointer keys (identities, outside the value model): several entries, several decodes
	for _, n := range []int{1, 2, 3, 7, 20} {
		r.Do(L(A("ptrkeys"), A(fmt.Sprint(n))), true, "ptrkeys")
	}
	// a long history through one interned field: more distinct strings than any table limit one might pick
	for _, n := range []int{257, scale(tier, 10000, 20000)} {
		r.Do(L(A("internmany"), A(fmt.Sprint(n))), true, "internmany")
	}
	return "type-directed generation: random struct/slice/map/pointer/named/recursive type definitions (depth<=3, reflect-built plus a static corpus of named and recursive types) under the four option combinations, boundary-biased values; op = Marshal then Unmarshal into a fresh variable; non-trivial = value contains a non-empty container, non-nil pointer or struct with fields; distinct = distinct op text"
}

var freshSeq int

// freshCfg: a configuration string that no earlier op used, hence an instance whose
// registry holds nothing but the defaults (a marker registration under a unique,
// otherwise unused tag name makes the key unique).
func freshCfg(flags string) string {
	freshSeq++
	return fmt.Sprintf("(cfg %s (reg %s %s flat64))", flags, hxs("MyI64"), hxs(fmt.Sprintf("fresh%d", freshSeq)))
}

// twiceStruct: one type used by two fields of the same struct under different tag
// options (in either order), on an instance that has never built a codec for it.
func (g *Gen) twiceStruct() *TyDef {
	type pair struct {
		t   *TyDef
		opt string
	}
	inner := Struct(F("A", "1", B("int")))
	ps := []pair{
		{named("MyInt"), "flat"}, {named("MyI32"), "flat"}, {named("MyI64"), "flat"}, {Ptr(B("int")), "flat"}, {Ptr(B("int64")), "flat"},
		{Ptr(named("MyInt")), "flat"}, {named("MyStr"), "intern"}, {Slice(B("str")), "proto"}, {Slice(inner), "proto"},
		{named("MyStrs"), "proto"}, {Map(B("str"), B("int")), "proto"}, {Slice(Slice(B("uint8"))), "proto"},
	}
	pi := g.r.Intn(len(ps))
	p := ps[pi]
	a := &FieldDef{Name: "A", Exported: true, Plenc: "1", T: p.t}
	b := &FieldDef{Name: "B", Exported: true, Plenc: "2," + p.opt, T: p.t}
	fs := []*FieldDef{a, b}
	if g.r.Bool() {
		fs = []*FieldDef{b, a}
	}
	if g.r.P(40) && pi < 7 { // a slice of it, where that is a legal type
		fs = append(fs, &FieldDef{Name: "C", Exported: true, Plenc: "3", T: Slice(p.t)})
	}
	if g.r.P(30) {
		return Struct(F("W", "1", Struct(fs...)), F("X", "2", p.t))
	}
	return Struct(fs...)
}

func runC02(r *Runner, g *Gen, tier string) string {
	n := scale(tier, 4000, 300000)
	// the null types (also interned null.String): omitted exactly when invalid, written even when empty
	for i := 0; i < scale(tier, 400, 30000); i++ {
		flags := g.pickCfg()
		t := g.presenceStruct(1)
		b := 20
		v := g.Value(t, &b)
		if knownShape(flags, t, false) || multiEntryMaps(v) {
			continue
		}
		r.Do(codecOp("enc", "(cfg "+flags+" null)", t, "", v.Sexp()), true, "enc.null")
	}
	for i := 0; i < scale(tier, 250, 20000); i++ {
		flags := g.pickCfg()
		t := g.twiceStruct()
		if knownShape(flags, t, false) {
			continue
		}
		b := 30
		v := g.Value(t, &b)
		if multiEntryMaps(v) {
			continue
		}
		cfg := freshCfg(flags)
		r.Do(codecOp("enc", cfg, t, "", v.Sexp()), true, "enc.fresh-twice")
		r.Do(codecOp("rt", cfg, t, "", v.Sexp()), true, "rt.fresh-twice")
	}
	for i := 0; i < n; i++ {
		cfg := g.pickCfg()
		t, v := g.sample(cfg, 3)
		if g.r.P(5) {
			// pointer-shaped structs: the bytes are the same by value and by pointer
			t = g.ifaceShaped()
			b := 20
			v = g.Value(t, &b)
		}
		if multiEntryMaps(v) {
			// the encoding is fixed only up to entry order: hand the implementation's bytes to the model
			res := execOp(codecOp("enc", cfg, t, "", v.Sexp()))
			if strings.HasPrefix(res, "ok ") {
				r.Do(codecOp("encm", cfg, t, "", v.Sexp(), A(res[3:])), true, "encm")
				continue
			}
		}
		r.Do(codecOp("enc", cfg, t, "", v.Sexp()), nontrivialVal(t, v), "enc")
	}
	return "same generators as C01; op = Marshal, bytes compared exactly with the model (values with multi-entry maps: the implementation's bytes are decoded and re-encoded by the model, exact up to entry order) and with an independent reference encoder in the harness"
}

func runC05(r *Runner, g *Gen, tier string) string {
	n := scale(tier, 4000, 300000)
	tags := [][]byte{{0x0a}, {0x08}, {0x92, 0x01}, {0xfa, 0xff, 0x01}, {0x85, 0x80, 0x80, 0x01}, {0xfd, 0xff, 0xff, 0xff, 0x0f}}
	for i := 0; i < n; i++ {
		cfg := g.pickCfg()
		t, v := g.sample(cfg, 3)
		if multiEntryMaps(v) {
			continue
		}
		r.Do(codecOp("laws", cfg, t, "", v.Sexp(), A(hx(tags[g.r.Intn(len(tags))]))), nontrivialVal(t, v), "laws")
	}
	// sizes at which a length prefix (or a count) changes width, for every repeating form, under tags of 1-5
	// bytes: packed floats and ints, length-delimited and repeated elements, plain and proto maps (many
	// entries: no fixed order, so only Size == len(Append) and the round trip are judged), nested one level
	for _, cfg := range []string{"00", "11"} {
		el := Struct(F("A", "1", B("int")))
		shapes := []*TyDef{Slice(B("f32")), Slice(B("f64")), Slice(B("int")), Slice(B("str")), Slice(el), Slice(Ptr(el)),
			Struct(F("S", "1", Slice(B("f32")))), Struct(F("N", "1", Struct(F("S", "2", Slice(B("f64")))))),
			Struct(F("M", "1", Map(B("int"), B("int")))), Struct(&FieldDef{Name: "M", Exported: true, Plenc: "1,proto", T: Map(B("int"), B("int"))}),
			Struct(F("N", "3", Struct(&FieldDef{Name: "M", Exported: true, Plenc: "70000,proto", T: Map(B("str"), B("str"))}))),
			Struct(F("N", "3", Struct(&FieldDef{Name: "L", Exported: true, Plenc: "17,proto", T: Slice(Ptr(el))}))),
			Struct(F("N", "300000", Struct(F("L", "262144", Slice(B("f32")))))),
		}
		for _, t := range shapes {
			if knownShape(cfg, t, false) {
				t = Struct(F("W", "1", t)) // the repeated form needs a field around it (F02)
			}
			for _, n := range []int{15, 16, 31, 32, 127, 128, 129, 2047, 2048, 4095, 4096, scale(tier, 130, 16384), scale(tier, 131, 16385)} {
				r.Do(codecOp("lawsz", cfg, t, "", A(fmt.Sprint(n)), A(hx(tags[g.r.Intn(len(tags))]))), true, "lawsz")
			}
		}
	}
	// measured, changed in place, appended again into a re-used buffer: every length prefix is that of the value as it is now
	mutStream(r, g, scale(tier, 500, 40000))
	// the exported BigQuery timestamp codec (not reachable from CodecForType)
	secs := []int64{0, 1, -1, 1700000000, -62135596800, 253402300799, 2147483647, 2147483648, -2208988800, 9223372036854, -9223372036854}
	nsecs := []int64{0, 1, 999, 1000, 1001, 999999, 1000000, 123456789, 999999000, 999999999}
	for _, s := range secs {
		for _, ns := range nsecs {
			r.Do(L(A("bq"), A(fmt.Sprint(s)), A(fmt.Sprint(ns)), A(hx(tags[g.r.Intn(len(tags))])), A(g.r.Pick("x", "x07", "xff01"))), true, "bq.boundary")
		}
	}
	for i := 0; i < scale(tier, 300, 20000); i++ {
		s := int64(g.r.U64()>>uint(g.r.Intn(64))) % 9223372036854
		if g.r.Bool() {
			s = -s
		}
		r.Do(L(A("bq"), A(fmt.Sprint(s)), A(fmt.Sprint(g.r.Intn(1000000000))), A(hx(tags[g.r.Intn(len(tags))])), A("x")), true, "bq.random")
		r.Do(L(A("bqread"), A(hx(g.r.Bytes(g.r.Intn(12))))), true, "bqread.hostile")
	}
	return "same generators as C01 (values without multi-entry maps); op = Codec.Size/Append with nil and non-nil tag and Read of the untagged body, called on the codec from CodecForType; plus the exported BQTimestampCodec on boundary and random times and hostile bytes"
}

// ---- C09: explicit presence ------------------------------------------------------

func init() { propRunners["C09"] = runC09 }

var nullNames = []string{"null.Int", "null.Bool", "null.Float", "null.String", "null.Time"}

// presenceType: a struct whose fields are pointers / null types / maps with
// pointer or null values, nested, beside plain fields.
func (g *Gen) presenceStruct(depth int) *TyDef {
	n := 1 + g.r.Intn(5)
	used := map[int]bool{}
	var fs []*FieldDef
	for i := 0; i < n; i++ {
		idx := 1 + g.r.Intn(12)
		for used[idx] {
			idx = 1 + g.r.Intn(12)
		}
		used[idx] = true
		var t *TyDef
		opt := ""
		switch g.r.Intn(9) {
		case 0, 1:
			t = Ext(nullNames[g.r.Intn(5)])
			if t.Name == "null.String" && g.r.P(40) {
				opt = ",intern"
			}
		case 2:
			t = Ptr(g.vtypeNoPtr())
		case 3:
			t = Ptr(g.ftype())
		case 4:
			t = Ptr(g.ltypeNoPtr(depth - 1))
			if g.r.P(35) {
				t = Ptr(g.sliceType(0, false)) // a pointer to a slice has presence too
			}
		case 5:
			var v *TyDef
			if g.r.Bool() {
				v = Ext(nullNames[g.r.Intn(5)])
			} else {
				v = Ptr(g.ltypeNoPtr(depth - 1))
			}
			t = Map(g.keyType(0), v)
		case 6:
			if g.r.P(30) {
				// null types as slice elements (null.Float is rejected there, like *float64): an invalid
				// entry behaves as a nil pointer entry does
				t = Slice(Ext(g.r.Pick("null.Int", "null.Bool", "null.String", "null.Time")))
				break
			}
			if depth > 0 {
				t = g.presenceStruct(depth - 1)
			} else {
				t = Ptr(B("str"))
			}
		case 7:
			if depth > 0 {
				t = Ptr(g.presenceStruct(depth - 1))
			} else {
				t = Ptr(B("int8"))
			}
		default:
			t = g.valueType(0) // plain field: no presence
			for t.K == "ptr" {
				t = t.Elem
			}
		}
		fs = append(fs, &FieldDef{Name: fmt.Sprintf("F%d", i), Exported: true, Plenc: fmt.Sprint(idx) + opt, T: t})
	}
	return Struct(fs...)
}

func (g *Gen) vtypeNoPtr() *TyDef {
	t := g.vtype()
	for t.K == "ptr" {
		t = t.Elem
	}
	return t
}

func (g *Gen) ltypeNoPtr(depth int) *TyDef {
	t := g.ltype(depth)
	for t.K == "ptr" {
		t = t.Elem
	}
	return t
}

// absentEntries: a copy of v in which map entries keep their keys but a share of their values
// (and of the pointer / null fields) is made absent or zero.
func absentEntries(g *Gen, t *TyDef, v *Val) *Val {
	switch t.K {
	case "named":
		if t.Elem.K == "time" {
			return v
		}
		return absentEntries(g, t.Elem, v)
	case "struct":
		out := &Val{K: "r"}
		j := 0
		for _, f := range t.Fields {
			if !fieldEncoded(f) {
				continue
			}
			if j >= len(v.L) {
				return v
			}
			out.L = append(out.L, absentEntries(g, f.T, v.L[j]))
			j++
		}
		return out
	case "ptr":
		if v.P == nil || g.r.P(25) {
			return &Val{K: "p"}
		}
		return &Val{K: "p", P: absentEntries(g, t.Elem, v.P)}
	case "map":
		if v.K != "m" {
			return v
		}
		out := &Val{K: "m"}
		for _, e := range v.M {
			x := e[1]
			if g.r.P(60) {
				x = zeroVal(t.Elem)
			} else {
				x = absentEntries(g, t.Elem, x)
			}
			out.M = append(out.M, [2]*Val{e[0], x})
		}
		return out
	}
	return v
}

func runC09(r *Runner, g *Gen, tier string) string {
	n := scale(tier, 4000, 250000)
	for i := 0; i < n; i++ {
		flags := g.pickCfg()
		cfg := "(cfg " + flags + " null)"
		t := g.presenceStruct(2)
		b := 40
		v := g.Value(t, &b)
		if knownShape(flags, t, false) {
			continue
		}
		r.Do(codecOp("rt", cfg, t, "", v.Sexp()), nontrivialVal(t, v), "rt.presence")
		if i%3 == 0 {
			// absence overwrites: the target already holds the same keys / fields with present values
			// (a re-used variable), the data says absent for some of them
			prior := g.Value(t, &b)
			r.Do(codecOp("decm", cfg, t, "", absentEntries(g, t, prior).Sexp(), prior.Sexp()), true, "decm.absent-over-present")
		}
		if i%6 == 1 {
			// present-but-empty overwrites: the target holds non-empty values, the data says "present, empty"
			prior := g.Value(t, &b)
			r.Do(codecOp("decm", cfg, t, "", presentButEmpty(t).Sexp(), prior.Sexp()), true, "decm.empty-over-present")
		}
		if i%5 == 0 {
			// pointers to null values with VALID pointees (an invalid one is the pointer-to-pointer finding F03):
			// present and empty must come back present and empty
			nn := nullNames[g.r.Intn(5)]
			pt := Struct(F("P", "1", Ptr(Ext(nn))), F("M", "2", Map(B("str"), Ptr(Ext(nn)))), F("X", "3", B("int")))
			mkv := func() *Val {
				if g.r.P(30) {
					return &Val{K: "p"}
				}
				inner := zeroVal(extPayload[nn])
				if g.r.P(40) {
					bb := 6
					inner = g.Value(extPayload[nn], &bb)
				}
				return &Val{K: "p", P: &Val{K: "p", P: inner}}
			}
			pv := &Val{K: "r", L: []*Val{mkv(), {K: "m", M: [][2]*Val{{{K: "s", Data: []byte("k")}, mkv()}}}, {K: "i", I: 1}}}
			r.Do(codecOp("rt", cfg, pt, "", pv.Sexp()), true, "rt.ptr-to-null")
		}
		if i%7 == 0 {
			// the repeated form read by the plain slice codec into a target that was cut to length 0: the
			// appended slot holds a stale element whose pointer / null fields were present
			el := Struct(F("P", "1", Ptr(B("int"))), F("N", "2", Ext("null.String")), F("Q", "3", Ptr(B("str"))), F("A", "4", B("int")))
			lt := Struct(F("L", "1", Slice(el)))
			full := func(k int) *Val {
				return &Val{K: "r", L: []*Val{{K: "p", P: &Val{K: "i", I: int64(k)}}, {K: "p", P: &Val{K: "s", Data: []byte("old")}}, {K: "p", P: &Val{K: "s", Data: []byte("q")}}, {K: "i", I: 9}}}
			}
			sparse := &Val{K: "r", L: []*Val{{K: "p"}, {K: "p"}, {K: "p"}, {K: "i", I: int64(1 + g.r.Intn(5))}}}
			oldV := &Val{K: "r", L: []*Val{{K: "l", L: []*Val{full(1), full(2), full(3)}}}}
			newV := &Val{K: "r", L: []*Val{{K: "l", L: []*Val{sparse, sparse}}}}
			ce, _ := parseSexp("(cfg 01 null)")
			cd, _ := parseSexp("(cfg 00 null)")
			r.Do(L(A("xdecm"), ce, cd, lt.Sexp(), newV.Sexp(), oldV.Sexp(), A("stale")), true, "xdecm.stale-presence")
		}
		if i%4 == 0 {
			// … and the Descriptor flags explicit presence for exactly those fields
			r.Do(codecOp("desc", cfg, t, ""), true, "desc.presence")
		}
	}
	return "structs whose fields are pointers (to scalars, floats, strings, bytes, times, structs), null.Int/Bool/Float/String/Time (null.String also interned), maps with pointer or null values, nested and behind pointers, beside plain fields; pointees are nil / zero-or-empty / random with probability ~1/3 each; op = round trip; oracle: nil-ness / Valid flag and pointee preserved exactly, plain zero fields read back zero"
}
