package main

import (
	"bufio"
	"bytes"
	"encoding/json"
	"flag"
	"fmt"
	"hash/fnv"
	"os"
	"reflect"
	"runtime/debug"
	"sort"
	"strings"
	"time"
	"unsafe"

	"github.com/philpearl/plenc"
	"github.com/philpearl/plenc/plenccodec"
)

// Runner writes each op before executing it (so a fatal crash leaves the
// culprit as the last line of ops.txt), then the implementation's result.
type Runner struct {
	ops, out, orc *bufio.Writer
	n             int
	distinct      map[uint64]bool
	nontrivial    map[uint64]bool
	hist          map[string]int
	samples       []string
	classes       map[string]int
	oracleFails   int
	maxOps        int
}

func hash64(s string) uint64 { h := fnv.New64a(); h.Write([]byte(s)); return h.Sum64() }

// Emit executes one op. nontrivial: the generator's statement that this case
// exercises something (a container, an option, a boundary) — see the rule in the evidence.
func (r *Runner) Emit(op *Sexp, nontrivial bool, family string) string {
	line := op.String()
	r.ops.WriteString(line)
	r.ops.WriteByte('\n')
	r.ops.Flush()
	res := execOp(op)
	r.out.WriteString(res)
	r.out.WriteByte('\n')
	r.out.Flush()
	r.n++
	h := hash64(line)
	if !r.distinct[h] {
		r.distinct[h] = true
		if nontrivial {
			r.nontrivial[h] = true
		}
	}
	r.hist["family."+family]++
	cls := res
	if i := strings.IndexByte(res, ' '); i >= 0 {
		cls = res[:i]
	}
	if len(cls) > 12 {
		cls = "value"
	}
	r.classes[family+"."+cls]++
	if len(r.samples) < 12 && (r.n%97 == 1 || len(r.samples) < 3) {
		s := line
		if len(s) > 400 {
			s = s[:400] + "..."
		}
		r.samples = append(r.samples, s)
	}
	return res
}

// Oracle records a failure of the property's direct statement on the implementation.
func (r *Runner) Oracle(op *Sexp, msg string) {
	r.oracleFails++
	fmt.Fprintf(r.orc, "%d\t%s\t%s\n", r.n, msg, op.String())
	r.orc.Flush()
}

func (r *Runner) Full() bool { return r.maxOps > 0 && r.n >= r.maxOps }

func main() {
	// unbounded recursion in the code under test becomes a quick fatal error instead of a gigabyte of stack
	debug.SetMaxStack(128 << 20)
	if len(os.Args) < 2 {
		fmt.Fprintln(os.Stderr, "usage: harness run|replay ...")
		os.Exit(2)
	}
	switch os.Args[1] {
	case "run":
		fs := flag.NewFlagSet("run", flag.ExitOnError)
		prop := fs.String("prop", "", "property id")
		tier := fs.String("tier", "quick", "quick|thorough")
		seed := fs.Uint64("seed", 1, "seed")
		dir := fs.String("dir", ".", "work dir")
		fs.Parse(os.Args[2:])
		runProp(*prop, *tier, *seed, *dir)
	case "pkgreg":
		// a process of its own: package-level registration before the package-level default is first used
		plenc.RegisterCodec(reflect.TypeOf(time.Time{}), plenccodec.BQTimestampCodec{})
		type holder struct {
			T time.Time `plenc:"1"`
		}
		at := time.Unix(1700000000, 123456000).UTC()
		data, err := plenc.Marshal(nil, &holder{T: at})
		if err != nil {
			fmt.Println("ok wrong: " + err.Error())
			os.Exit(1)
		}
		want := append([]byte{0x08}, plenccodec.BQTimestampCodec{}.Append(nil, unsafe.Pointer(&at), nil)...)
		if !bytes.Equal(data, want) {
			fmt.Printf("ok wrong: the codec registered on the package-level default before its first use is not used: got %x want %x\n", data, want)
			os.Exit(1)
		}
		fmt.Println("ok")
		return
	case "replay":
		// execute ops from a file (or stdin), print results
		fs := flag.NewFlagSet("replay", flag.ExitOnError)
		file := fs.String("ops", "-", "ops file")
		fs.Parse(os.Args[2:])
		in := os.Stdin
		if *file != "-" {
			f, err := os.Open(*file)
			if err != nil {
				fmt.Fprintln(os.Stderr, err)
				os.Exit(2)
			}
			in = f
		}
		sc := bufio.NewScanner(in)
		sc.Buffer(make([]byte, 1<<20), 1<<28)
		w := bufio.NewWriter(os.Stdout)
		for sc.Scan() {
			line := strings.TrimSpace(sc.Text())
			if line == "" || strings.HasPrefix(line, "#") {
				fmt.Fprintln(w, line)
				w.Flush()
				continue
			}
			s, err := parseSexp(line)
			if err != nil {
				fmt.Fprintln(w, "bad-op")
			} else {
				res := execOp(s)
				fmt.Fprintln(w, res)
				for _, o := range oracleFor(s, res) {
					fmt.Fprintln(os.Stderr, "ORACLE", o)
				}
			}
			w.Flush()
		}
	case "race":
		fs := flag.NewFlagSet("race", flag.ExitOnError)
		prop := fs.String("prop", "C07", "property")
		rounds := fs.Int("rounds", 200, "rounds")
		fs.Parse(os.Args[2:])
		if runRace(*prop, *rounds) > 0 {
			os.Exit(1)
		}
	default:
		fmt.Fprintln(os.Stderr, "unknown mode")
		os.Exit(2)
	}
}

// currentProp: the property whose check is running (set by `run -prop`, or by the check script for replays)
var currentProp = os.Getenv("VERIF_PROP")

func runProp(prop, tier string, seed uint64, dir string) {
	currentProp = prop
	start := time.Now()
	mk := func(name string) *bufio.Writer {
		f, err := os.Create(dir + "/" + name)
		if err != nil {
			fmt.Fprintln(os.Stderr, err)
			os.Exit(2)
		}
		return bufio.NewWriterSize(f, 1<<16)
	}
	r := &Runner{ops: mk("ops.txt"), out: mk("impl.out"), orc: mk("oracle.txt"),
		distinct: map[uint64]bool{}, nontrivial: map[uint64]bool{}, hist: map[string]int{}, classes: map[string]int{}}
	g := &Gen{r: NewRNG(seed), stats: r.hist}
	f, ok := propRunners[prop]
	if !ok {
		fmt.Fprintln(os.Stderr, "no generator for", prop)
		os.Exit(2)
	}
	rule := f(r, g, tier)
	r.ops.Flush()
	r.out.Flush()
	r.orc.Flush()
	keys := make([]string, 0, len(r.hist))
	for k := range r.hist {
		keys = append(keys, k)
	}
	sort.Strings(keys)
	stats := map[string]interface{}{
		"evaluations": r.n, "distinct": len(r.distinct), "distinct_nontrivial": len(r.nontrivial),
		"histogram": r.hist, "outcome_classes": topClasses(r.classes, 200), "samples": r.samples, "rule": rule,
		"oracle_failures": r.oracleFails, "gen_wall_s": time.Since(start).Seconds(),
	}
	if maxAllocPct > 0 {
		r.hist["alloc.max_percent_of_bound"] = int(maxAllocPct)
	}
	b, _ := json.MarshalIndent(stats, "", " ")
	os.WriteFile(dir+"/stats.json", b, 0o644)
}

// topClasses keeps the n most frequent outcome classes and folds the rest into one entry
// (for value-returning ops every result is a class of its own).
func topClasses(m map[string]int, n int) map[string]int {
	if len(m) <= n {
		return m
	}
	type kv struct {
		k string
		v int
	}
	var all []kv
	for k, v := range m {
		all = append(all, kv{k, v})
	}
	sort.Slice(all, func(i, j int) bool { return all[i].v > all[j].v || (all[i].v == all[j].v && all[i].k < all[j].k) })
	out := map[string]int{}
	rest := 0
	for i, e := range all {
		if i < n {
			out[e.k] = e.v
		} else {
			rest += e.v
		}
	}
	out[fmt.Sprintf("(%d further classes)", len(all)-n)] = rest
	return out
}
