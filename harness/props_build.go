package main

import (
	"fmt"
	"strings"
)

func init() { propRunners["C08"] = runC08 }

var badKinds = []string{"complex64", "complex128", "array", "chan", "func", "iface", "uintptr", "unsafeptr"}

var weirdTags = []string{"", "-", "1", "+1", "-1", " 1", "1 ", "01", "007", "1,", "1,,", "1,flat", "1,intern", "1,proto", "1,bogus",
	"abc", "536870912", "4294967296", "9223372036854775808", "-9223372036854775809", "-0", "+0", "0x1", "1_0", "1.0", ",1", ",", "--1", "+-1", "1,flat,intern", "٣", "１"}

// anyType: valid and invalid types mixed; bad kinds and unsupported nestings in every position.
func (g *Gen) anyType(depth int) *TyDef {
	if depth <= 0 {
		if g.r.P(15) {
			return &TyDef{K: "bad", Name: badKinds[g.r.Intn(len(badKinds))]}
		}
		return g.valueType(0)
	}
	switch g.r.Intn(14) {
	case 0:
		return &TyDef{K: "bad", Name: badKinds[g.r.Intn(len(badKinds))]}
	case 1:
		return Ptr(g.anyType(depth - 1))
	case 2:
		return Slice(g.anyType(depth - 1))
	case 3:
		k := g.keyType(0)
		if g.r.P(15) {
			k = g.vtype()
		}
		return Map(k, g.anyType(depth-1))
	case 4:
		return g.anyStruct(depth - 1)
	case 5:
		return Slice(Ptr(g.ftype())) // slices of float pointers
	case 6:
		return Slice(Slice(g.ltype(0))) // slices of slices of length-delimited elements
	case 7:
		return Map(B("str"), Map(B("str"), B("int"))) // nested map
	case 8:
		return Ptr(Map(B("str"), B("int")))
	case 9:
		return Slice(Map(B("str"), B("int")))
	case 10:
		// library struct types with registered codecs (package null) in container positions
		e := Ext(nullNames[g.r.Intn(5)])
		switch g.r.Intn(4) {
		case 0:
			return Slice(e)
		case 1:
			return Ptr(e)
		case 2:
			return Map(B("str"), e)
		}
		return e
	}
	return g.valueType(depth)
}

func (g *Gen) anyStruct(depth int) *TyDef {
	n := g.r.Intn(5)
	var fs []*FieldDef
	for i := 0; i < n; i++ {
		f := &FieldDef{Name: fmt.Sprintf("F%d", i), Exported: true, T: g.anyType(depth)}
		switch g.r.Intn(10) {
		case 0, 1, 2:
			f.Plenc = weirdTags[g.r.Intn(len(weirdTags))]
		case 3:
			f.Plenc = fmt.Sprint(1 + g.r.Intn(3)) // likely duplicates
		case 4:
			f.Exported = false
			f.Name = g.r.Pick("f", "_f", "x1", "éx") + fmt.Sprint(i)
			f.Plenc = g.r.Pick("", "1", "2,flat", "-")
		case 5:
			f.Name = g.r.Pick("Éa", "Ünit", "Ω", "A_b") + fmt.Sprint(i)
			f.Plenc = fmt.Sprint(10 + i)
		default:
			f.Plenc = fmt.Sprint(10 + i)
			if g.r.P(25) {
				f.Plenc += "," + g.r.Pick("flat", "intern", "proto", "bogus", "")
			}
		}
		if g.r.P(15) {
			f.JSON = g.r.Pick("x", "x,omitempty", "-", ",")
		}
		fs = append(fs, f)
	}
	return Struct(fs...)
}

func runC08(r *Runner, g *Gen, tier string) string {
	// defined types that refer to themselves without a struct in the cycle (no finite
	// TyDef: oracle only). SSelfHolder reaches one through a struct field.
	for _, name := range []string{"PSelf", "SSelf", "MSelf", "PSelfA", "PSelfB", "SSelfHolder"} {
		r.Do(L(A("buildself"), A(hxs(name))), true, "build.selfref")
	}
	// slices of slices of length-delimited elements under every option combination, directly, behind
	// pointers, in fields, with and without the proto tag (regression: accepted under ProtoCompatibleArrays
	// until the repair, and the inner slices ran together); the packed / byte forms beside them stay accepted
	for _, cfg := range cfgs {
		el := Struct(F("X", "1", B("bool")))
		for _, inner := range []*TyDef{B("str"), el, {K: "time"}, Ptr(B("str")), named("MyStr"), Slice(B("uint8")), B("int"), B("f64"), B("uint8")} {
			for _, t := range []*TyDef{Slice(Slice(inner)), Slice(Ptr(Slice(inner))), Ptr(Slice(Slice(inner))), Slice(Slice(Slice(inner))), Slice(Ptr(Ptr(Slice(inner))))} {
				r.Do(codecOp("build", cfg, t, "", A("5")), true, "build.nested-slices")
				r.Do(codecOp("build", cfg, Struct(F("A", "1", t)), "", A("5")), true, "build.nested-slices")
				r.Do(codecOp("build", cfg, Struct(&FieldDef{Name: "A", Exported: true, Plenc: "1,proto", T: t}), "", A("5")), true, "build.nested-slices")
				r.Do(codecOp("build", cfg, Struct(F("M", "1", Map(B("str"), t))), "", A("5")), true, "build.nested-slices")
			}
			// maps whose values are slices: in the repeated form an entry would need one value field per element
			for _, mv := range []*TyDef{Slice(inner), Ptr(Slice(inner)), Ptr(Ptr(Slice(inner)))} {
				m := Map(B(g.r.Pick("str", "int", "bool")), mv)
				r.Do(codecOp("build", cfg, m, "", A("5")), true, "build.map-of-slices")
				r.Do(codecOp("build", cfg, Struct(F("M", "1", m)), "", A("5")), true, "build.map-of-slices")
				r.Do(codecOp("build", cfg, Struct(&FieldDef{Name: "M", Exported: true, Plenc: "1,proto", T: m}), "", A("5")), true, "build.map-of-slices")
				r.Do(codecOp("build", cfg, Slice(Struct(F("M", "1", m))), "", A("5")), true, "build.map-of-slices")
				if mv.K == "ptr" {
					// … and as the KEY (pointers are comparable)
					r.Do(codecOp("build", cfg, Struct(F("M", "1", Map(mv, B("int")))), "", A("5")), true, "build.map-of-slices")
				}
			}
		}
	}
	// multi-step sequences on one instance: a recursive definition whose construction
	// fails must leave nothing behind: every later request that involves it fails too
	for ci, cfg := range cfgs {
		inst := fmt.Sprintf("(cfg %s (reg %s x xint8))", cfg, hxs(fmt.Sprintf("nonexistent%d", ci))) // a fresh instance per sequence
		_ = inst
		for _, fam := range [][]string{{"BadRec"}, {"BadHolder", "GoodViaBad"}, {"BadRec2"}, {"GoodViaBad", "BadHolder"}} {
			freshCfg := fmt.Sprintf("(cfg %s (reg x62616466616d%02d x int8))", cfg, len(fam)*10+ci+int(g.r.Intn(1000))*0)
			_ = freshCfg
			for _, name := range fam {
				t := FromRT(staticTypes[name], 6)
				for _, wrap := range []func(*TyDef) *TyDef{
					func(x *TyDef) *TyDef { return x },
					func(x *TyDef) *TyDef { return Ptr(x) },
					func(x *TyDef) *TyDef { return Slice(Ptr(x)) },
					func(x *TyDef) *TyDef { return Map(B("str"), Ptr(x)) },
					func(x *TyDef) *TyDef { return Struct(F("F", "1", Ptr(x))) },
					func(x *TyDef) *TyDef { return x },
				} {
					r.Do(codecOp("build", cfg, wrap(t), "", A("5")), true, "build.failed-recursive")
				}
			}
		}
	}
	n := scale(tier, 5000, 600000)
	for i := 0; i < n; i++ {
		cfg := g.pickCfg()
		var t *TyDef
		if g.r.P(25) {
			t = g.topType(3) // well-formed definitions
		} else if g.r.P(50) {
			t = g.anyStruct(2)
		} else {
			t = g.anyType(2)
		}
		tag := ""
		if g.r.P(10) {
			tag = g.r.Pick("flat", "intern", "proto", "bogus")
		}
		if g.r.P(50) {
			cfg = "(cfg " + cfg + " null)"
		}
		res := r.Do(codecOp("build", cfg, t, tag, A("5")), t.K == "struct" || t.K == "map" || t.K == "slice", "build")
		if strings.HasPrefix(res, "ok ") && tag == "" && !strings.Contains(res, "unknown") {
			// an accepted definition must also work: smoke round trip of the zero value and of a generated value
			if canGenerate(t) && !knownShape(cfg, t, false) {
				b := 20
				v := g.Value(t, &b)
				r.Do(codecOp("rt", cfg, t, "", v.Sexp()), true, "build.smoke")
			}
		}
	}
	return "struct/slice/map/pointer definitions with well-formed and malformed plenc tags (sign, spaces, leading zeros, overflow, empty/extra options, non-ASCII digits), every unsupported kind (complex, array, chan, func, interface, uintptr, unsafe pointer) and unsupported nesting ([]*float, [][]string, map of map, *map, []map) in every position, duplicates, unexported and '-' fields, under all option combinations and top-level tag options; compared: ok/err and, when ok, the complete codec tree plenc built (rendered from the real codec objects) against the model's; accepted definitions are then smoke round-tripped"
}

// canGenerate: the value generator covers the type (no bad kinds; tags parse the way fieldEncoded assumes).
func canGenerate(t *TyDef) bool {
	switch t.K {
	case "bad":
		return false
	case "ext":
		return false // null types in arbitrary positions: builder comparison only (slices of them are lossy, D22)
	case "ptr", "slice":
		return canGenerate(t.Elem)
	case "map":
		return canGenerate(t.Key) && canGenerate(t.Elem)
	case "named":
		return true
	case "struct":
		for _, f := range t.Fields {
			if fieldEncoded(f) && !canGenerate(f.T) {
				return false
			}
		}
	}
	return true
}

// knownShape: shapes excluded from round-trip expectations by the known
// findings (F01 top-level pointer, F02 proto-repeated form outside a struct
// field, F03 pointer to pointer) — the same predicate as the model's `rtShape`.
func knownShape(cfg string, t *TyDef, field bool) bool {
	protoArrays := strings.Contains(cfg, "01") || strings.Contains(cfg, "11")
	return knownShapeAt(protoArrays, t, "", field, true)
}

func knownShapeAt(protoArrays bool, t *TyDef, opt string, field, top bool) bool {
	u := t.under()
	switch u.K {
	case "ptr":
		if top || u.Elem.under().K == "ptr" {
			return true
		}
		return knownShapeAt(protoArrays, u.Elem, opt, false, false)
	case "slice":
		if u.isBytes() {
			return false
		}
		e := refEnc{protoArrays: protoArrays}
		if e.wt(u.Elem, "") == 2 && (protoArrays || opt == "proto") && !field {
			return true
		}
		return knownShapeAt(protoArrays, u.Elem, "", false, false)
	case "map":
		if opt == "proto" && !field {
			return true
		}
		return !keySafe(u.Key) || knownShapeAt(protoArrays, u.Elem, "", false, false)
	case "struct":
		for _, f := range u.Fields {
			if !fieldEncoded(f) {
				continue
			}
			_, fopt := splitTag(f.Plenc)
			if knownShapeAt(protoArrays, f.T, fopt, true, false) {
				return true
			}
		}
	}
	return false
}

func keySafe(t *TyDef) bool {
	u := t.under()
	switch u.K {
	case "bool", "str", "int", "int8", "int16", "int32", "int64", "uint", "uint8", "uint16", "uint32", "uint64":
		return true
	case "struct":
		for _, f := range u.Fields {
			if fieldEncoded(f) && !keySafe(f.T) {
				return false
			}
		}
		return true
	}
	return false
}
