package main

import (
	"bytes"
	"encoding/json"
	"fmt"
	"math"
	"reflect"
	"sort"
	"strconv"
	"strings"
	"time"
	"unicode/utf8"

	"github.com/philpearl/plenc"
	"github.com/philpearl/plenc/plenccodec"
)

func init() {
	propRunners["C13"] = runC13
}

// execDescJSON: (descjson cfg T tag V via): Marshal(v), then walk the bytes with
// the type's Descriptor (taken directly, or after a plenc / JSON round trip of
// the descriptor itself) and the JSON outputter.
func execDescJSON(s *Sexp) string {
	c, err := parseCtx(s)
	if err != nil {
		return "bad-op " + err.Error()
	}
	v, err := parseVal(s.List[4])
	if err != nil {
		return "bad-op " + err.Error()
	}
	via := s.List[5].Atom
	return guard(func() string {
		cd, err := c.codec()
		if err != nil {
			return "builderr"
		}
		pv, err := c.newValue(v)
		if err != nil {
			return "bad-op " + err.Error()
		}
		data, err := c.marshalPtr(pv)
		if err != nil {
			return "err"
		}
		if len(s.List) > 6 {
			// the op fixes the bytes (map iteration order varies between Marshal calls)
			data, err = unhx(s.List[6].Atom)
			if err != nil {
				return "bad-op"
			}
		}
		d := cd.Descriptor()
		switch via {
		case "plenc":
			b, err := plenc.Marshal(nil, &d)
			if err != nil {
				return "err-desc-marshal"
			}
			var d2 plenccodec.Descriptor
			if err := plenc.Unmarshal(b, &d2); err != nil {
				return "err-desc-unmarshal"
			}
			d = d2
		case "json":
			b, err := json.Marshal(&d)
			if err != nil {
				return "err-desc-marshal"
			}
			var d2 plenccodec.Descriptor
			if err := json.Unmarshal(b, &d2); err != nil {
				return "err-desc-unmarshal"
			}
			d = d2
		}
		var out plenccodec.JSONOutput
		if err := d.Read(&out, data); err != nil {
			return "err"
		}
		return "ok " + hx(out.Done())
	})
}

// recOut records the Outputter calls in the model's OCall syntax.
type recOut struct{ calls []string }

func (r *recOut) StartObject()       { r.calls = append(r.calls, "so") }
func (r *recOut) EndObject()         { r.calls = append(r.calls, "eo") }
func (r *recOut) StartArray()        { r.calls = append(r.calls, "sa") }
func (r *recOut) EndArray()          { r.calls = append(r.calls, "ea") }
func (r *recOut) NameField(n string) { r.calls = append(r.calls, "(n "+hxs(n)+")") }
func (r *recOut) Int64(v int64)      { r.calls = append(r.calls, fmt.Sprintf("(i64 %d)", v)) }
func (r *recOut) Uint64(v uint64)    { r.calls = append(r.calls, fmt.Sprintf("(u64 %d)", v)) }
func (r *recOut) Float64(v float64) {
	r.calls = append(r.calls, fmt.Sprintf("(f64 %d)", math.Float64bits(v)))
}
func (r *recOut) Float32(v float32) {
	r.calls = append(r.calls, fmt.Sprintf("(f32 %d)", math.Float32bits(v)))
}
func (r *recOut) String(v string) { r.calls = append(r.calls, "(s "+hxs(v)+")") }
func (r *recOut) Bool(v bool) {
	if v {
		r.calls = append(r.calls, "(b 1)")
	} else {
		r.calls = append(r.calls, "(b 0)")
	}
}
func (r *recOut) Time(t time.Time) {
	r.calls = append(r.calls, fmt.Sprintf("(t %d %d)", t.Unix(), t.Nanosecond()))
}
func (r *recOut) Raw(v string) { r.calls = append(r.calls, "(raw "+hxs(v)+")") }

var lastDescJSON string

// execDescCalls: like descjson, but the comparable output is the recorded call
// sequence; the JSON rendering of the same walk is kept for the oracle.
func execDescCalls(s *Sexp) string {
	lastDescJSON = ""
	res := execDescJSON(s)
	lastDescJSON = res
	if !strings.HasPrefix(res, "ok ") {
		return res
	}
	c, err := parseCtx(s)
	if err != nil {
		return "bad-op"
	}
	v, _ := parseVal(s.List[4])
	return guard(func() string {
		cd, _ := c.codec()
		pv, _ := c.newValue(v)
		data, _ := c.marshalPtr(pv)
		if len(s.List) > 6 {
			data, _ = unhx(s.List[6].Atom)
		}
		// an earlier caller tailored ITS copy of the descriptor (dropped and renamed elements below the top
		// level); what the codec hands out next is still T's Descriptor
		d0 := cd.Descriptor()
		tailorDesc(&d0)
		d := cd.Descriptor()
		var rec recOut
		if err := d.Read(&rec, data); err != nil {
			return "err"
		}
		return "ok " + strings.Join(rec.calls, " ")
	})
}

// tailorDesc: what a caller may do to its own copy: rename, reorder and delete elements in place
func tailorDesc(d *plenccodec.Descriptor) {
	for i := range d.Elements {
		tailorDesc(&d.Elements[i])
		d.Elements[i].Name = "tailored"
		d.Elements[i].Index += 1000
	}
	if n := len(d.Elements); n > 1 {
		d.Elements[0], d.Elements[n-1] = d.Elements[n-1], d.Elements[0]
		d.Elements = append(d.Elements[:0], d.Elements[1:]...)
	}
}

// ---- expected JSON-model image of a value (independent of plenc and of the model)

func toJ(t *TyDef, v *Val, opt string) (interface{}, bool) {
	switch t.K {
	case "named":
		if t.Elem.K == "time" {
			return map[string]interface{}{}, true
		}
		if t.Elem.isBytes() {
			arr := []interface{}{}
			for _, b := range v.Data {
				arr = append(arr, json.Number(strconv.Itoa(int(b))))
			}
			return arr, true
		}
		return toJ(t.Elem, v, opt)
	case "ext":
		return toJ(extPayload[t.Name], v.P, "")
	case "bool":
		return v.B, true
	case "int", "int8", "int16", "int32", "int64":
		return json.Number(strconv.FormatInt(v.I, 10)), true
	case "uint", "uint8", "uint16", "uint32", "uint64":
		return json.Number(strconv.FormatUint(v.U, 10)), true
	case "f32":
		f := float64(math.Float32frombits(uint32(v.U)))
		if math.IsNaN(f) || math.IsInf(f, 0) {
			return nil, false
		}
		return json.Number(strconv.FormatFloat(f, 'g', -1, 64)), true
	case "f64":
		f := math.Float64frombits(v.U)
		if math.IsNaN(f) || math.IsInf(f, 0) {
			return nil, false
		}
		return json.Number(strconv.FormatFloat(f, 'g', -1, 64)), true
	case "str":
		if !utf8.Valid(v.Data) {
			return nil, false
		}
		return string(v.Data), true
	case "time":
		return time.Unix(v.Sec, v.Nsec).UTC().Format(time.RFC3339Nano), true
	case "ptr":
		if v.P == nil {
			// a nil pointer that still has a position (slice element): an element
			// with nothing on the wire, i.e. its target with every field omitted
			if t.Elem.under().K == "struct" {
				return map[string]interface{}{}, true
			}
			return toJ(t.Elem, zeroVal(t.Elem), opt)
		}
		return toJ(t.Elem, v.P, opt)
	case "slice":
		if t.isBytes() {
			if !utf8.Valid(v.Data) {
				return nil, false
			}
			return string(v.Data), true
		}
		arr := []interface{}{}
		for _, e := range v.L {
			if t.Elem.under().K == "ptr" && e.P == nil && isVarintKind(t.Elem.under().Elem) {
				continue // dropped on the wire
			}
			x, ok := toJ(t.Elem, e, "")
			if !ok {
				return nil, false
			}
			arr = append(arr, x)
		}
		return arr, true
	case "map":
		ku := t.Key.under()
		if ku.K == "str" {
			obj := map[string]interface{}{}
			for _, e := range v.M {
				if !utf8.Valid(e[0].Data) {
					return nil, false
				}
				x, ok := toJ(t.Elem, e[1], "")
				if !ok {
					return nil, false
				}
				if e[1].K == "p" && e[1].P == nil {
					x = nil // absent pointer / invalid null.X: null
				} else if omitted(t.Elem, e[1]) {
					// omitted on the wire (zero, -0.0, empty): rendered as the zero value
					x, _ = toJ(t.Elem, zeroVal(t.Elem), "")
				}
				obj[string(e[0].Data)] = x
			}
			return obj, true
		}
		arr := []interface{}{}
		for _, e := range v.M {
			ent := map[string]interface{}{}
			if !omitted(t.Key, e[0]) {
				k, ok := toJ(t.Key, e[0], "")
				if !ok {
					return nil, false
				}
				ent["key"] = k
			}
			if !omitted(t.Elem, e[1]) {
				x, ok := toJ(t.Elem, e[1], "")
				if !ok {
					return nil, false
				}
				ent["value"] = x
			}
			arr = append(arr, ent)
		}
		return sortedArr(arr), true
	case "struct":
		obj := map[string]interface{}{}
		j := 0
		for _, f := range t.Fields {
			if !fieldEncoded(f) {
				continue
			}
			fv := v.L[j]
			j++
			if omitted(f.T, fv) {
				continue
			}
			_, fopt := splitTag(f.Plenc)
			x, ok := toJ(f.T, fv, fopt)
			if !ok {
				return nil, false
			}
			name := f.Name
			if jn := strings.SplitN(f.JSON, ",", 2)[0]; jn != "" {
				name = jn
			}
			if _, dup := obj[name]; dup {
				return nil, false
			}
			obj[name] = x
		}
		return obj, true
	}
	return nil, false
}

// entry lists of non-string-keyed maps come in map iteration order: compare as multisets
func sortedArr(arr []interface{}) []interface{} {
	keys := make([]string, len(arr))
	for i, x := range arr {
		b, _ := json.Marshal(canonJ(x))
		keys[i] = string(b)
	}
	idx := make([]int, len(arr))
	for i := range idx {
		idx[i] = i
	}
	sort.Slice(idx, func(a, b int) bool { return keys[idx[a]] < keys[idx[b]] })
	out := make([]interface{}, len(arr))
	for i, k := range idx {
		out[i] = arr[k]
	}
	return out
}

// canonJ: numbers to a canonical spelling (integers exactly, floats by value)
func canonJ(v interface{}) interface{} {
	switch v := v.(type) {
	case []interface{}:
		out := make([]interface{}, len(v))
		for i, x := range v {
			out[i] = canonJ(x)
		}
		return out
	case map[string]interface{}:
		out := map[string]interface{}{}
		for k, x := range v {
			out[k] = canonJ(x)
		}
		return out
	case json.Number:
		s := string(v)
		if _, err := strconv.ParseInt(s, 10, 64); err == nil {
			return "#" + s
		}
		if _, err := strconv.ParseUint(s, 10, 64); err == nil {
			return "#" + s
		}
		f, err := strconv.ParseFloat(s, 64)
		if err != nil {
			return "#?" + s
		}
		if f == math.Trunc(f) && math.Abs(f) < 1e15 {
			return "#" + strconv.FormatInt(int64(f), 10)
		}
		return "#" + strconv.FormatFloat(f, 'g', -1, 64)
	}
	return v
}

// mapsToSortedLists: the walker's own output for non-string-keyed maps is a list in wire order
func sortListsOfEntries(v interface{}) interface{} {
	switch v := v.(type) {
	case []interface{}:
		out := make([]interface{}, len(v))
		allEntries := len(v) > 0
		for i, x := range v {
			out[i] = sortListsOfEntries(x)
			m, ok := out[i].(map[string]interface{})
			if !ok {
				allEntries = false
				continue
			}
			for k := range m {
				if k != "key" && k != "value" {
					allEntries = false
				}
			}
		}
		if allEntries {
			return sortedArr(out)
		}
		return out
	case map[string]interface{}:
		out := map[string]interface{}{}
		for k, x := range v {
			out[k] = sortListsOfEntries(x)
		}
		return out
	}
	return v
}

func oracleDescJSON(op *Sexp, res string) []string {
	if !strings.HasPrefix(res, "ok ") {
		if res == "builderr" {
			return nil
		}
		return []string{"descriptor-driven decode failed: " + res}
	}
	out, err := unhx(res[3:])
	if err != nil {
		return []string{"bad output"}
	}
	if !json.Valid(out) {
		return []string{fmt.Sprintf("descriptor-driven decode is not valid JSON: %q", out)}
	}
	c, err := parseCtx(op)
	if err != nil {
		return nil
	}
	v, err := parseVal(op.List[4])
	if err != nil {
		return nil
	}
	var want interface{}
	ok := true
	if omitted(c.td, v) {
		return nil // nothing on the wire at top level
	}
	want, ok = toJ(c.td, v, c.tag)
	if !ok {
		return nil
	}
	var got interface{}
	d := json.NewDecoder(bytes.NewReader(out))
	d.UseNumber()
	if err := d.Decode(&got); err != nil {
		return []string{"decode: " + err.Error()}
	}
	a, _ := json.Marshal(canonJ(sortListsOfEntries(got)))
	b, _ := json.Marshal(canonJ(sortListsOfEntries(want)))
	if !reflect.DeepEqual(a, b) {
		return []string{fmt.Sprintf("JSON content differs from the value: got %s want %s", a, b)}
	}
	return nil
}

func runC13(r *Runner, g *Gen, tier string) string {
	n := scale(tier, 3000, 400000)
	for i := 0; i < n; i++ {
		// proto-compatible times (F06) and the protobuf repeated forms (F08) are
		// known findings of descriptor-driven decoding: default mode, no proto tags
		cfg := "00"
		g.proto = false
		g.noProtoTag = true
		g.finiteFloats = true
		g.noNarrowFlat = true // F09: the descriptor has no integer width: negative flat int8/16/32 render unsigned
		t := g.structType(3)
		b := 40
		v := g.Value(t, &b)
		g.noProtoTag = false
		g.finiteFloats = false
		g.noNarrowFlat = false
		via := g.r.Pick("direct", "direct", "plenc", "json")
		enc := execOp(codecOp("enc", cfg, t, "", v.Sexp()))
		if !strings.HasPrefix(enc, "ok x") {
			continue
		}
		r.Do(codecOp("desccalls", cfg, t, "", v.Sexp(), A(via), A(enc[3:])), nontrivialVal(t, v), "desccalls."+via)
	}
	// registered JSON-any types are accepted types too: their descriptors walk what their codecs wrote
	for i := 0; i < n/6; i++ {
		d := 1 + g.r.Intn(4)
		v := g.jobj(d)
		if g.r.Bool() {
			v = g.jarr(d)
		}
		enc := jenc(r, v)
		if strings.HasPrefix(enc, "ok x") {
			r.Do(L(A("jrt"), A("desc"), v, A(enc[3:])), true, "jrt.desc")
		}
	}
	// deep nesting: structs, slices of structs and string-keyed maps nested 30-40 and 70 levels
	for _, depth := range []int{30, 31, 32, 33, 34, 35, 40, 70} {
		for shape := 0; shape < 3; shape++ {
			t := Struct(F("V", "1", B("int")), F("S", "2", B("str")))
			v := &Val{K: "r", L: []*Val{{K: "i", I: 7}, {K: "s", Data: []byte("deep")}}}
			for d := 0; d < depth; d++ {
				switch shape {
				case 0:
					t, v = Struct(F("N", "1", t), F("A", "2", B("int"))), &Val{K: "r", L: []*Val{v, {K: "i", I: int64(d)}}}
				case 1:
					t, v = Struct(F("L", "1", Slice(t))), &Val{K: "r", L: []*Val{{K: "l", L: []*Val{v}}}}
				case 2:
					t, v = Struct(F("M", "1", Map(B("str"), t))), &Val{K: "r", L: []*Val{{K: "m", M: [][2]*Val{{{K: "s", Data: []byte("k")}, v}}}}}
				}
			}
			enc := execOp(codecOp("enc", "00", t, "", v.Sexp()))
			if strings.HasPrefix(enc, "ok x") {
				r.Do(codecOp("desccalls", "00", t, "", v.Sexp(), A("direct"), A(enc[3:])), true, "desccalls.deep")
			}
		}
	}
	return "generated struct types and values; op = Marshal, then Descriptor.Read with the JSON outputter, the descriptor taken directly / after a plenc round trip / after an encoding/json round trip; oracle: json.Valid and content equal to the value in the JSON data model (objects by field name with omitted fields absent, arrays element for element, string-keyed maps as objects, other maps as key/value lists compared as multisets, pointers as targets, RFC3339 times, numbers by value)"
}
