// translator regenerates lean/Gen/Generated.lean from /repo's Go source on every
// run: constant tables, the default codec registry, the kind switch of the
// builder, each codec's WireType()/Descriptor() constant, and the straight-line
// integer functions of plenccore as BitVec 64 / Nat definitions. Loops, unsafe
// code and reflection are deliberately not translated (hand-written model +
// correspondence). Anything it cannot translate is emitted as `untranslated`.
package main

import (
	"flag"
	"fmt"
	"go/ast"
	"go/parser"
	"go/printer"
	"go/token"
	"os"
	"path/filepath"
	"sort"
	"strconv"
	"strings"
)

var fset = token.NewFileSet()

func parseFile(path string) *ast.File {
	f, err := parser.ParseFile(fset, path, nil, 0)
	if err != nil {
		fmt.Fprintln(os.Stderr, err)
		os.Exit(1)
	}
	return f
}

func exprStr(e ast.Expr) string {
	switch e := e.(type) {
	case *ast.Ident:
		return e.Name
	case *ast.SelectorExpr:
		return exprStr(e.X) + "." + e.Sel.Name
	case *ast.BasicLit:
		return e.Value
	case *ast.CallExpr:
		args := []string{}
		for _, a := range e.Args {
			args = append(args, exprStr(a))
		}
		return exprStr(e.Fun) + "(" + strings.Join(args, ",") + ")"
	case *ast.CompositeLit:
		return exprStr(e.Type) + "{}"
	case *ast.UnaryExpr:
		return e.Op.String() + exprStr(e.X)
	case *ast.IndexExpr:
		return exprStr(e.X) + "[" + exprStr(e.Index) + "]"
	case *ast.ArrayType:
		return "[]" + exprStr(e.Elt)
	case *ast.StarExpr:
		return "*" + exprStr(e.X)
	case *ast.ParenExpr:
		return "(" + exprStr(e.X) + ")"
	}
	return fmt.Sprintf("<%T>", e)
}

func leanStr(s string) string { return strconv.Quote(s) }

// iota const blocks of a given type name → ordered (name, value)
func iotaConsts(f *ast.File, typeName string) [][2]string {
	var out [][2]string
	for _, d := range f.Decls {
		gd, ok := d.(*ast.GenDecl)
		if !ok || gd.Tok != token.CONST {
			continue
		}
		match := false
		for i, sp := range gd.Specs {
			vs := sp.(*ast.ValueSpec)
			if i == 0 {
				if id, ok := vs.Type.(*ast.Ident); ok && id.Name == typeName {
					match = true
				}
			}
			if !match {
				break
			}
			for _, n := range vs.Names {
				out = append(out, [2]string{n.Name, strconv.Itoa(i)})
			}
		}
	}
	return out
}

func findFunc(f *ast.File, name string, recv string) *ast.FuncDecl {
	for _, d := range f.Decls {
		fd, ok := d.(*ast.FuncDecl)
		if !ok || fd.Name.Name != name {
			continue
		}
		if recv == "" && fd.Recv == nil {
			return fd
		}
		if recv != "" && fd.Recv != nil && recvName(fd) == recv {
			return fd
		}
	}
	return nil
}

func recvName(fd *ast.FuncDecl) string {
	if fd.Recv == nil || len(fd.Recv.List) == 0 {
		return ""
	}
	t := fd.Recv.List[0].Type
	s := exprStr(t)
	s = strings.TrimPrefix(s, "*")
	if i := strings.IndexByte(s, '['); i >= 0 {
		s = s[:i]
	}
	return s
}

// ---- BitVec 64 expression translation -----------------------------------------

type bvEnv map[string]bool // ident → signed?

var untranslated []string

func bv(e ast.Expr, env bvEnv) (string, bool, bool) { // lean, signed, ok
	switch e := e.(type) {
	case *ast.ParenExpr:
		return bv(e.X, env)
	case *ast.Ident:
		s, ok := env[e.Name]
		return e.Name, s, ok
	case *ast.BasicLit:
		v, err := strconv.ParseUint(e.Value, 0, 64)
		if err != nil {
			return "", false, false
		}
		return fmt.Sprintf("%d#64", v), true, true
	case *ast.CallExpr:
		if id, ok := e.Fun.(*ast.Ident); ok && len(e.Args) == 1 {
			x, _, ok2 := bv(e.Args[0], env)
			switch id.Name {
			case "uint64", "uint":
				return x, false, ok2
			case "int64", "int", "WireType":
				return x, true, ok2
			}
		}
		return "", false, false
	case *ast.UnaryExpr:
		x, s, ok := bv(e.X, env)
		if e.Op == token.SUB {
			return "(-" + x + ")", s, ok
		}
		if e.Op == token.XOR {
			return "(~~~" + x + ")", s, ok
		}
		return "", false, false
	case *ast.BinaryExpr:
		x, sx, ok1 := bv(e.X, env)
		if !ok1 {
			return "", false, false
		}
		if e.Op == token.SHL || e.Op == token.SHR {
			lit, ok := e.Y.(*ast.BasicLit)
			if !ok {
				return "", false, false
			}
			if e.Op == token.SHL {
				return fmt.Sprintf("(%s <<< %s)", x, lit.Value), sx, true
			}
			if sx {
				return fmt.Sprintf("(BitVec.sshiftRight %s %s)", x, lit.Value), sx, true
			}
			return fmt.Sprintf("(%s >>> %s)", x, lit.Value), sx, true
		}
		y, _, ok2 := bv(e.Y, env)
		if !ok2 {
			return "", false, false
		}
		op := map[token.Token]string{token.XOR: "^^^", token.AND: "&&&", token.OR: "|||", token.ADD: "+", token.SUB: "-", token.MUL: "*"}[e.Op]
		if op == "" {
			return "", false, false
		}
		return fmt.Sprintf("(%s %s %s)", x, op, y), sx, true
	}
	return "", false, false
}

func paramEnv(fd *ast.FuncDecl) bvEnv {
	env := bvEnv{}
	for _, p := range fd.Type.Params.List {
		t := exprStr(p.Type)
		signed := t == "int64" || t == "int" || t == "WireType"
		for _, n := range p.Names {
			env[n.Name] = signed
		}
	}
	return env
}

func singleReturn(fd *ast.FuncDecl) ast.Expr {
	if fd == nil || fd.Body == nil || len(fd.Body.List) != 1 {
		return nil
	}
	rs, ok := fd.Body.List[0].(*ast.ReturnStmt)
	if !ok || len(rs.Results) != 1 {
		return nil
	}
	return rs.Results[0]
}

// assignment `name = expr` or `name := expr` inside a function
func findAssign(fd *ast.FuncDecl, name string) ast.Expr {
	var out ast.Expr
	if fd == nil {
		return nil
	}
	ast.Inspect(fd.Body, func(n ast.Node) bool {
		as, ok := n.(*ast.AssignStmt)
		if ok && len(as.Lhs) == 1 && len(as.Rhs) == 1 {
			if id, ok := as.Lhs[0].(*ast.Ident); ok && id.Name == name && out == nil {
				out = as.Rhs[0]
			}
		}
		return true
	})
	return out
}

// ---- Nat statement translation (SizeVarUint) -------------------------------------

func natExpr(e ast.Expr) (string, bool) {
	switch e := e.(type) {
	case *ast.ParenExpr:
		return natExpr(e.X)
	case *ast.Ident:
		return e.Name + "'", true
	case *ast.BasicLit:
		v, err := strconv.ParseUint(e.Value, 0, 64)
		return strconv.FormatUint(v, 10), err == nil
	case *ast.CallExpr:
		if exprStr(e.Fun) == "bits.Len64" && len(e.Args) == 1 {
			x, ok := natExpr(e.Args[0])
			return "(len64 " + x + ")", ok
		}
	case *ast.BinaryExpr:
		x, ok1 := natExpr(e.X)
		y, ok2 := natExpr(e.Y)
		op := map[token.Token]string{token.ADD: "+", token.QUO: "/", token.MUL: "*", token.LSS: "<", token.SUB: "-"}[e.Op]
		if ok1 && ok2 && e.Op == token.SHL {
			return fmt.Sprintf("(%s * 2 ^ %s)", x, y), true // on Nat: no truncation; constants only
		}
		if ok1 && ok2 && op != "" {
			return fmt.Sprintf("(%s %s %s)", x, op, y), true
		}
	}
	return "", false
}

func natStmts(stmts []ast.Stmt) (string, bool) {
	if len(stmts) == 0 {
		return "", false
	}
	switch s := stmts[0].(type) {
	case *ast.ReturnStmt:
		if len(s.Results) == 1 {
			return natExpr(s.Results[0])
		}
	case *ast.IfStmt:
		if s.Init == nil && s.Else == nil {
			c, ok1 := natExpr(s.Cond)
			t, ok2 := natStmts(s.Body.List)
			r, ok3 := natStmts(stmts[1:])
			if ok1 && ok2 && ok3 {
				return fmt.Sprintf("(if %s then %s else %s)", c, t, r), true
			}
		}
	case *ast.AssignStmt:
		if len(s.Lhs) == 1 && len(s.Rhs) == 1 {
			id, ok0 := s.Lhs[0].(*ast.Ident)
			v, ok1 := natExpr(s.Rhs[0])
			r, ok2 := natStmts(stmts[1:])
			if ok0 && ok1 && ok2 {
				return fmt.Sprintf("(let %s' := %s; %s)", id.Name, v, r), true
			}
		}
	}
	return "", false
}

func main() {
	repo := flag.String("repo", "/repo", "repository root")
	out := flag.String("out", "", "output .lean file")
	flag.Parse()
	var b strings.Builder
	w := func(f string, a ...interface{}) { fmt.Fprintf(&b, f+"\n", a...) }
	w("/- GENERATED by /verif/translator from %s — do not edit. Regenerated on every check run. -/", *repo)
	w("import Plenc.Varint")
	w("namespace Gen")

	wire := parseFile(filepath.Join(*repo, "plenccore/wire.go"))
	vari := parseFile(filepath.Join(*repo, "plenccore/varints.go"))
	desc := parseFile(filepath.Join(*repo, "plenccodec/descriptor.go"))
	jsn := parseFile(filepath.Join(*repo, "plenccodec/json.go"))

	constTable := func(name string, f *ast.File, typ string) {
		w("def %s : List (String × Nat) := [", name)
		cs := iotaConsts(f, typ)
		for i, c := range cs {
			sep := ","
			if i == len(cs)-1 {
				sep = ""
			}
			w("  (%s, %s)%s", leanStr(c[0]), c[1], sep)
		}
		w("]")
	}
	constTable("wireTypes", wire, "WireType")
	constTable("fieldTypes", desc, "FieldType")
	constTable("logicalTypes", desc, "LogicalType")
	constTable("jsonTypes", jsn, "jsonType")

	// straight-line integer functions
	bvFunc := func(name string, fd *ast.FuncDecl, e ast.Expr, params []string) {
		if fd == nil || e == nil {
			untranslated = append(untranslated, name)
			return
		}
		x, _, ok := bv(e, paramEnv(fd))
		if !ok {
			untranslated = append(untranslated, name)
			return
		}
		ps := ""
		for _, p := range params {
			ps += fmt.Sprintf(" (%s : BitVec 64)", p)
		}
		w("def %s%s : BitVec 64 := %s", name, ps, x)
	}
	zz := findFunc(vari, "ZigZag", "")
	bvFunc("zigZag", zz, singleReturn(zz), []string{"v"})
	zg := findFunc(vari, "ZagZig", "")
	bvFunc("zagZig", zg, singleReturn(zg), []string{"v"})
	at := findFunc(wire, "AppendTag", "")
	bvFunc("appendTagWord", at, findAssign(at, "tag"), []string{"wt", "index"})
	st := findFunc(wire, "SizeTag", "")
	bvFunc("sizeTagWord", st, findAssign(st, "tag"), []string{"wt", "index"})
	rt := findFunc(wire, "ReadTag", "")
	if rt != nil {
		env := paramEnv(rt)
		env["v"] = false
		for _, nm := range []string{"wt", "index"} {
			e := findAssign(rt, nm)
			if e == nil {
				untranslated = append(untranslated, "readTag."+nm)
				continue
			}
			x, _, ok := bv(e, env)
			if !ok {
				untranslated = append(untranslated, "readTag."+nm)
				continue
			}
			w("def readTag_%s (v : BitVec 64) : BitVec 64 := %s", nm, x)
		}
	}
	sv := findFunc(vari, "SizeVarUint", "")
	if sv != nil {
		if s, ok := natStmts(sv.Body.List); ok {
			w("def sizeVarUint (v' : Nat) : Nat := %s", s)
		} else {
			untranslated = append(untranslated, "sizeVarUint")
		}
	}
	// wrappers defined by composition: f(x) = g(h(x))
	for _, nm := range []string{"ReadVarInt", "SizeVarInt", "AppendVarInt", "ReadVarUint"} {
		fd := findFunc(vari, nm, "")
		calls := []string{}
		if fd != nil {
			ast.Inspect(fd.Body, func(n ast.Node) bool {
				if c, ok := n.(*ast.CallExpr); ok {
					calls = append(calls, exprStr(c.Fun))
				}
				return true
			})
		}
		w("def calls_%s : List String := [%s]", nm, quoteList(calls))
	}

	// default registry: plenc.go RegisterDefaultCodecs
	pl := parseFile(filepath.Join(*repo, "plenc.go"))
	reg := findFunc(pl, "RegisterDefaultCodecs", "Plenc")
	w("/-- (condition, type, tag, codec) for every registration in RegisterDefaultCodecs -/")
	w("def defaultRegistry : List (String × String × String × String) := [")
	var regs []string
	var walk func(stmts []ast.Stmt, cond string)
	walk = func(stmts []ast.Stmt, cond string) {
		for _, s := range stmts {
			switch s := s.(type) {
			case *ast.ExprStmt:
				c, ok := s.X.(*ast.CallExpr)
				if !ok {
					continue
				}
				fn := exprStr(c.Fun)
				if strings.HasSuffix(fn, ".RegisterCodec") && len(c.Args) == 2 {
					regs = append(regs, fmt.Sprintf("  (%s, %s, %s, %s)", leanStr(cond), leanStr(typeArg(c.Args[0])), leanStr(""), leanStr(exprStr(c.Args[1]))))
				} else if strings.HasSuffix(fn, ".RegisterCodecWithTag") && len(c.Args) == 3 {
					tag, _ := strconv.Unquote(exprStr(c.Args[1]))
					regs = append(regs, fmt.Sprintf("  (%s, %s, %s, %s)", leanStr(cond), leanStr(typeArg(c.Args[0])), leanStr(tag), leanStr(exprStr(c.Args[2]))))
				}
			case *ast.IfStmt:
				c := exprStr(s.Cond)
				walk(s.Body.List, c)
				if blk, ok := s.Else.(*ast.BlockStmt); ok {
					walk(blk.List, "!"+c)
				}
			}
		}
	}
	if reg != nil {
		walk(reg.Body.List, "")
	}
	w("%s", strings.Join(regs, ",\n"))
	w("]")

	// kind switch of CodecForTypeRegistry: (kind, basic type looked up)
	cd := parseFile(filepath.Join(*repo, "codec.go"))
	cft := findFunc(cd, "CodecForTypeRegistry", "Plenc")
	var arms []string
	if cft != nil {
		ast.Inspect(cft.Body, func(n ast.Node) bool {
			sw, ok := n.(*ast.SwitchStmt)
			if !ok || exprStr(sw.Tag) != "typ.Kind()" {
				return true
			}
			for _, cc := range sw.Body.List {
				cl := cc.(*ast.CaseClause)
				basic := ""
				ast.Inspect(cl, func(m ast.Node) bool {
					if c, ok := m.(*ast.CallExpr); ok && strings.HasSuffix(exprStr(c.Fun), "codecForBasicType") {
						basic = typeArg(c.Args[0])
					}
					return true
				})
				for _, k := range cl.List {
					arms = append(arms, fmt.Sprintf("  (%s, %s)", leanStr(exprStr(k)), leanStr(basic)))
				}
			}
			return false
		})
	}
	w("/-- arms of the reflect.Kind switch in CodecForTypeRegistry: (kind, basic type whose codec is looked up or \"\") -/")
	w("def kindArms : List (String × String) := [\n%s\n]", strings.Join(arms, ",\n"))

	// WireType() and Descriptor() constants of every codec in plenccodec and null
	var wts, descs []string
	for _, dir := range []string{"plenccodec", "null"} {
		files, _ := filepath.Glob(filepath.Join(*repo, dir, "*.go"))
		sort.Strings(files)
		for _, fn := range files {
			if strings.HasSuffix(fn, "_test.go") {
				continue
			}
			f := parseFile(fn)
			for _, d := range f.Decls {
				fd, ok := d.(*ast.FuncDecl)
				if !ok || fd.Recv == nil {
					continue
				}
				if fd.Name.Name == "WireType" {
					if e := singleReturn(fd); e != nil {
						wts = append(wts, fmt.Sprintf("  (%s, %s)", leanStr(recvName(fd)), leanStr(exprStr(e))))
					}
				}
				if fd.Name.Name == "Descriptor" {
					if e := singleReturn(fd); e != nil {
						if cl, ok := e.(*ast.CompositeLit); ok {
							kv := []string{}
							for _, el := range cl.Elts {
								if p, ok := el.(*ast.KeyValueExpr); ok && exprStr(p.Key) != "Elements" {
									kv = append(kv, exprStr(p.Key)+"="+exprStr(p.Value))
								}
							}
							descs = append(descs, fmt.Sprintf("  (%s, %s)", leanStr(recvName(fd)), leanStr(strings.Join(kv, ";"))))
						}
					}
				}
			}
		}
	}
	// ---- guard tables: every early exit of the decoders and of the validation code, in source order
	type fnRef struct{ file, recv, name string }
	guardFns := []fnRef{
		{"plenccore/wire.go", "", "Skip"},
		{"plenccodec/struct.go", "", "BuildStructCodec"},
		{"plenccodec/struct.go", "StructCodec", "Read"},
		{"plenccodec/wrapper.go", "PointerWrapper", "Read"},
		{"plenccodec/wrapper.go", "WTLengthSliceWrapper", "Read"},
		{"plenccodec/wrapper.go", "WTLengthSliceWrapper", "readAsWTLength"},
		{"plenccodec/wrapper.go", "WTFixedSliceWrapper", "Read"},
		{"plenccodec/wrapper.go", "WTVarIntSliceWrapper", "Read"},
		{"plenccodec/wrapper.go", "ProtoSliceWrapper", "Read"},
		{"plenccodec/map.go", "", "BuildMapCodec"},
		{"plenccodec/map.go", "MapCodec", "Read"},
		{"plenccodec/map.go", "MapCodec", "readMapEntry"},
		{"plenccodec/map.go", "ProtoMapCodec", "Read"},
		{"plenccodec/time.go", "TimeCodec", "Read"},
		{"plenccodec/time.go", "TimeCompatCodec", "Read"},
		{"plenccodec/string.go", "StringCodec", "Read"},
		{"plenccodec/string.go", "BytesCodec", "Read"},
		{"plenccodec/json.go", "JSONMapCodec", "Read"},
		{"plenccodec/json.go", "JSONArrayCodec", "Read"},
		{"plenccodec/json.go", "", "readJSONKV"},
		{"plenccodec/descriptor.go", "Descriptor", "read"},
		{"plenccodec/descriptor.go", "Descriptor", "readAsSlice"},
		{"plenccodec/descriptor.go", "Descriptor", "readAsStruct"},
		{"plenccodec/descriptor.go", "Descriptor", "readAsMapEntry"},
		{"plenccodec/descriptor.go", "Descriptor", "readAsJSON"},
		{"plenccodec/descriptor.go", "Descriptor", "readJSONObjectKV"},
		{"codec.go", "Plenc", "CodecForTypeRegistry"},
		{"codec.go", "", "refersToItself"},
		{"codec.go", "", "isProtoSlice"},
		{"cmd/plenctag/main.go", "config", "rewrite"},
		{"cmd/plenctag/main.go", "config", "isExcluded"},
	}
	files := map[string]*ast.File{}
	var gl []string
	for _, fr := range guardFns {
		f, ok := files[fr.file]
		if !ok {
			f = parseFile(filepath.Join(*repo, fr.file))
			files[fr.file] = f
		}
		fd := findFunc(f, fr.name, fr.recv)
		label := fr.name
		if fr.recv != "" {
			label = fr.recv + "." + fr.name
		}
		if fd == nil {
			gl = append(gl, fmt.Sprintf("  (%s, [\"<function not found>\"])", leanStr(label)))
			continue
		}
		var gs []string
		for _, g := range guardsOf(fd) {
			gs = append(gs, leanStr(g))
		}
		gl = append(gl, fmt.Sprintf("  (%s, [%s])", leanStr(label), strings.Join(gs, ", ")))
	}
	w("def guards : List (String × List String) := [\n%s\n]", strings.Join(gl, ",\n"))
	// named integer constants the guards refer to
	for _, c := range [][3]string{{"plenccodec/struct.go", "maxFieldIndex", "maxFieldIndex_codec"}, {"cmd/plenctag/main.go", "maxFieldIndex", "maxFieldIndex_tool"}} {
		f, ok := files[c[0]]
		if !ok {
			f = parseFile(filepath.Join(*repo, c[0]))
		}
		val := "0"
		found := false
		ast.Inspect(f, func(n ast.Node) bool {
			vs, ok := n.(*ast.ValueSpec)
			if !ok {
				return true
			}
			for i, nm := range vs.Names {
				if nm.Name == c[1] && i < len(vs.Values) {
					if x, ok := natExpr(vs.Values[i]); ok {
						val, found = x, true
					}
				}
			}
			return true
		})
		if !found {
			untranslated = append(untranslated, c[2])
		}
		w("def %s : Nat := %s", c[2], val)
	}
	w("def codecWireTypes : List (String × String) := [\n%s\n]", strings.Join(wts, ",\n"))
	w("def codecDescriptors : List (String × String) := [\n%s\n]", strings.Join(descs, ",\n"))
	w("def untranslated : List String := [%s]", quoteList(untranslated))
	w("end Gen")
	if *out == "" {
		fmt.Print(b.String())
		return
	}
	os.Remove(*out)
	if err := os.WriteFile(*out, []byte(b.String()), 0o644); err != nil {
		fmt.Fprintln(os.Stderr, err)
		os.Exit(1)
	}
}

// guardsOf: every `if` of the function (nested ones included, in source order)
// whose body leaves early — `return` (kind "ret": an error or a short-circuit
// result), `continue`, `break` — as "kind: condition => what it returns".
func guardsOf(fd *ast.FuncDecl) []string {
	var out []string
	src := func(n ast.Node) string {
		var b strings.Builder
		printer.Fprint(&b, fset, n)
		return strings.Join(strings.Fields(b.String()), " ")
	}
	ast.Inspect(fd.Body, func(n ast.Node) bool {
		if fs, ok := n.(*ast.ForStmt); ok {
			c := "true"
			if fs.Cond != nil {
				c = src(fs.Cond)
			}
			post := ""
			if fs.Post != nil {
				post = "; " + src(fs.Post)
			}
			out = append(out, "for: "+c+post)
			return true
		}
		// arms of a switch / type switch that leave early
		var tagStr string
		var clauses []ast.Stmt
		switch sw := n.(type) {
		case *ast.SwitchStmt:
			if sw.Tag != nil {
				tagStr = src(sw.Tag)
			}
			clauses = sw.Body.List
		case *ast.TypeSwitchStmt:
			tagStr = src(sw.Assign)
			clauses = sw.Body.List
		}
		for _, c := range clauses {
			cl, ok := c.(*ast.CaseClause)
			if !ok || len(cl.Body) == 0 {
				continue
			}
			var ks []string
			for _, k := range cl.List {
				ks = append(ks, src(k))
			}
			arm := "default"
			if len(ks) > 0 {
				arm = strings.Join(ks, ", ")
			}
			switch last := cl.Body[len(cl.Body)-1].(type) {
			case *ast.ReturnStmt:
				var rs []string
				for _, r := range last.Results {
					if ce, ok := r.(*ast.CallExpr); ok && strings.HasSuffix(src(ce.Fun), "Errorf") {
						rs = append(rs, "error")
					} else {
						rs = append(rs, src(r))
					}
				}
				out = append(out, "case-ret: "+tagStr+" :: "+arm+" => "+strings.Join(rs, ", "))
			case *ast.BranchStmt:
				out = append(out, "case-"+last.Tok.String()+": "+tagStr+" :: "+arm)
			}
		}
		is, ok := n.(*ast.IfStmt)
		if !ok || len(is.Body.List) == 0 {
			return true
		}
		cond := src(is.Cond)
		if is.Init != nil {
			cond = src(is.Init) + "; " + cond
		}
		switch last := is.Body.List[len(is.Body.List)-1].(type) {
		case *ast.ReturnStmt:
			var rs []string
			for _, r := range last.Results {
				if ce, ok := r.(*ast.CallExpr); ok && strings.HasSuffix(src(ce.Fun), "Errorf") {
					rs = append(rs, "error")
				} else {
					rs = append(rs, src(r))
				}
			}
			out = append(out, "ret: "+cond+" => "+strings.Join(rs, ", "))
		case *ast.BranchStmt:
			out = append(out, last.Tok.String()+": "+cond)
		}
		return true
	})
	return out
}

func quoteList(xs []string) string {
	q := []string{}
	for _, x := range xs {
		q = append(q, leanStr(x))
	}
	return strings.Join(q, ", ")
}

// typeArg renders the argument of reflect.TypeOf(...) as the Go type it denotes.
func typeArg(e ast.Expr) string {
	c, ok := e.(*ast.CallExpr)
	if !ok || exprStr(c.Fun) != "reflect.TypeOf" || len(c.Args) != 1 {
		return exprStr(e)
	}
	a := c.Args[0]
	switch a := a.(type) {
	case *ast.CallExpr: // int8(0), []byte(nil), bool(false)
		return exprStr(a.Fun)
	case *ast.CompositeLit: // time.Time{}
		return exprStr(a.Type)
	case *ast.BasicLit:
		if a.Kind == token.STRING {
			return "string"
		}
		return a.Value
	case *ast.Ident:
		if a.Name == "false" || a.Name == "true" {
			return "bool"
		}
		return a.Name
	}
	return exprStr(a)
}
