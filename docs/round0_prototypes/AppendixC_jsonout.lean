abbrev Bytes := List UInt8
def nl : UInt8 := 10
def comma : UInt8 := 44

inductive St | value | key | objValue deriving DecidableEq, Repr
structure Out where
  data : Bytes
  depth : Nat
  inField : Bool
  stack : List St          -- head = top of the Go slice
deriving Repr

def indent (n : Nat) : Bytes := List.replicate (2 * n) 32

def Out.pre (o : Out) : Out :=
  if o.inField then { o with inField := false } else { o with data := o.data ++ indent o.depth }

/-- `end()`'s trailing-comma trim: if the buffer ends with ",\n" replace that by "\n". -/
def trim : Bytes → Bytes
  | [] => []
  | [a] => [a]
  | [a, b] => if a = comma ∧ b = nl then [nl] else [a, b]
  | a :: b :: c :: r => a :: trim (b :: c :: r)

def Out.fin (o : Out) : Out :=
  if o.depth = 0 then { o with data := o.data ++ [nl] }
  else { o with depth := o.depth - 1, stack := o.stack.tail, data := trim o.data }

def Out.punct (o : Out) : Out :=
  match o.stack with
  | [] => o
  | .key :: r => { o with data := o.data ++ [58, 32], stack := .objValue :: r }
  | .objValue :: r => { o with data := o.data ++ [comma, nl], stack := .key :: r }
  | .value :: r => { o with data := o.data ++ [comma, nl], stack := .value :: r }

inductive Call | startObj | endObj | startArr | endArr | name (quoted : Bytes) | scalar (tok : Bytes)

def step (o : Out) : Call → Out
  | .startObj => let o := o.pre; { o with data := o.data ++ [123, nl], depth := o.depth + 1, stack := .key :: o.stack }
  | .endObj => let o := o.fin.pre; ({ o with data := o.data ++ [125] } : Out).punct
  | .startArr => let o := o.pre; { o with data := o.data ++ [91, nl], depth := o.depth + 1, stack := .value :: o.stack }
  | .endArr => let o := o.fin.pre; ({ o with data := o.data ++ [93] } : Out).punct
  | .name q => let o := o.pre; ({ o with inField := true, data := o.data ++ q } : Out).punct
  | .scalar t => let o := o.pre; ({ o with data := o.data ++ t } : Out).punct

def run (o : Out) (cs : List Call) : Out := cs.foldl step o

inductive J where
  | tok (t : Bytes)
  | arr (xs : List J)
  | obj (kvs : List (Bytes × J))

mutual
def J.calls : J → List Call
  | .tok t => [.scalar t]
  | .arr xs => .startArr :: (callsL xs ++ [.endArr])
  | .obj kvs => .startObj :: (callsKV kvs ++ [.endObj])
def callsL : List J → List Call
  | [] => [] | x :: r => x.calls ++ callsL r
def callsKV : List (Bytes × J) → List Call
  | [] => [] | (k, x) :: r => (.name k :: x.calls) ++ callsKV r
end

/-- machine-shaped rendering: every element is followed by ",\n"; containers trim the last one -/
def closeElems (e : Bytes) : Bytes := if e = [] then [] else e.dropLast.dropLast ++ [nl]

mutual
def J.body : Nat → J → Bytes
  | _, .tok t => t
  | d, .arr xs => [91, nl] ++ closeElems (elemsL (d+1) xs) ++ indent d ++ [93]
  | d, .obj kvs => [123, nl] ++ closeElems (elemsKV (d+1) kvs) ++ indent d ++ [125]
def elemsL : Nat → List J → Bytes
  | _, [] => [] | d, x :: r => indent d ++ x.body d ++ [comma, nl] ++ elemsL d r
def elemsKV : Nat → List (Bytes × J) → Bytes
  | _, [] => [] | d, (k, x) :: r => indent d ++ k ++ [58, 32] ++ x.body d ++ [comma, nl] ++ elemsKV d r
end

def doneBytes (t : J) : Bytes := (run ⟨[], 0, false, []⟩ t.calls).fin.data

#eval String.fromUTF8! ⟨(doneBytes (.obj [("\"a\"".toUTF8.toList, .arr [.tok "1".toUTF8.toList, .arr []]), ("\"b\"".toUTF8.toList, .obj [])])).toArray⟩

theorem run_append (o : Out) (a b : List Call) : run o (a ++ b) = run (run o a) b := by
  simp [run, List.foldl_append]

theorem trim_append_two (x : Bytes) (c d : UInt8) :
    trim (x ++ [c, d]) = if c = comma ∧ d = nl then x ++ [nl] else x ++ [c, d] := by
  induction x with
  | nil => simp [trim]
  | cons a x ih =>
    cases x with
    | nil => simp only [List.cons_append, List.nil_append, trim]; split <;> simp_all [trim]
    | cons b x =>
      cases x with
      | nil =>
        simp only [List.cons_append, List.nil_append] at ih ⊢
        rw [trim, ih]; split <;> simp
      | cons e x =>
        simp only [List.cons_append] at ih ⊢
        rw [trim, ih]; split <;> simp

/-- context in which a value may start: top level, inside an array, or after a field name -/
inductive Ready : Out → Prop
  | top (d) : Ready ⟨d, 0, false, []⟩
  | arr (d n r) : Ready ⟨d, n, false, .value :: r⟩
  | objv (d n r) : Ready ⟨d, n, true, .objValue :: r⟩

/-- what a complete value does to the machine -/
def after (o : Out) (b : Bytes) : Out :=
  ({ o.pre with data := o.pre.data ++ b } : Out).punct

theorem scalar_step (o : Out) (t : Bytes) : step o (.scalar t) = after o t := rfl

theorem elemsL_ends (d : Nat) : ∀ xs : List J, elemsL d xs = [] ∨ ∃ e, elemsL d xs = e ++ [comma, nl]
  | [] => Or.inl (by simp [elemsL])
  | x :: r => by
    right
    rcases elemsL_ends d r with h | ⟨e, h⟩
    · exact ⟨indent d ++ x.body d, by simp [elemsL, h]⟩
    · exact ⟨indent d ++ x.body d ++ [comma, nl] ++ e, by simp [elemsL, h]⟩

theorem elemsKV_ends (d : Nat) : ∀ xs : List (Bytes × J), elemsKV d xs = [] ∨ ∃ e, elemsKV d xs = e ++ [comma, nl]
  | [] => Or.inl (by simp [elemsKV])
  | (k, x) :: r => by
    right
    rcases elemsKV_ends d r with h | ⟨e, h⟩
    · exact ⟨indent d ++ k ++ [58, 32] ++ x.body d, by simp [elemsKV, h]⟩
    · exact ⟨indent d ++ k ++ [58, 32] ++ x.body d ++ [comma, nl] ++ e, by simp [elemsKV, h]⟩

theorem trim_close (D : Bytes) (c : UInt8) (hc : c ≠ comma) (E : Bytes)
    (hE : E = [] ∨ ∃ e, E = e ++ [comma, nl]) :
    trim (D ++ [c, nl] ++ E) = D ++ [c, nl] ++ closeElems E := by
  rcases hE with h | ⟨e, h⟩
  · subst h
    simp only [List.append_nil, closeElems, ↓reduceIte]
    rw [trim_append_two]; simp [hc]
  · subst h
    have : D ++ [c, nl] ++ (e ++ [comma, nl]) = (D ++ [c, nl] ++ e) ++ [comma, nl] := by simp
    rw [this, trim_append_two]
    have hne : e ++ [comma, nl] ≠ [] := by simp
    simp only [and_self, ↓reduceIte, closeElems, hne]
    simp [List.dropLast_append_cons]

/-- states in which a value may begin -/
structure ReadyV (o : Out) : Prop where
  ok : (o.stack = [] ∧ o.inField = false ∧ o.depth = 0) ∨
       (∃ r, o.stack = .value :: r ∧ o.inField = false) ∨
       (∃ r, o.stack = .objValue :: r ∧ o.inField = true)

theorem pre_inField (o : Out) : o.pre.inField = false := by
  unfold Out.pre; split <;> simp_all

theorem pre_stack (o : Out) : o.pre.stack = o.stack := by unfold Out.pre; split <;> rfl
theorem pre_depth (o : Out) : o.pre.depth = o.depth := by unfold Out.pre; split <;> rfl


theorem after_arr (o : Out) (n : Nat) (r : List St) (b : Bytes)
    (hd : o.depth = n) (hf : o.inField = false) (hs : o.stack = .value :: r) :
    after o b = { o with data := o.data ++ indent n ++ b ++ [comma, nl] } := by
  cases o with
  | mk data depth inField stack =>
    simp only at hd hf hs
    subst hd; subst hf; subst hs
    simp [after, Out.pre, Out.punct]

theorem name_then_value (o : Out) (n : Nat) (r : List St) (k b : Bytes)
    (hd : o.depth = n) (hf : o.inField = false) (hs : o.stack = .key :: r) :
    after (step o (.name k)) b = { o with data := o.data ++ indent n ++ k ++ [58, 32] ++ b ++ [comma, nl] } := by
  cases o with
  | mk data depth inField stack =>
    simp only at hd hf hs
    subst hd; subst hf; subst hs
    simp [after, step, Out.pre, Out.punct]

theorem close_container (o : Out) (open_ close : UInt8) (ho : open_ ≠ comma) (E : Bytes)
    (hE : E = [] ∨ ∃ e, E = e ++ [comma, nl]) (top : St) :
    let o2 : Out := ⟨o.pre.data ++ [open_, nl] ++ E, o.depth + 1, false, top :: o.stack⟩
    (({ o2.fin.pre with data := o2.fin.pre.data ++ [close] } : Out).punct)
      = after o ([open_, nl] ++ closeElems E ++ indent o.depth ++ [close]) := by
  intro o2
  have hd : ¬ (o.depth + 1 = 0) := by omega
  have hfin : o2.fin = ⟨o.pre.data ++ [open_, nl] ++ closeElems E, o.depth, false, o.stack⟩ := by
    simp only [o2, Out.fin, hd, ↓reduceIte, List.tail_cons, Nat.add_sub_cancel]
    rw [trim_close o.pre.data open_ ho E hE]
  rw [hfin]
  simp only [after, Out.pre, Bool.false_eq_true, ↓reduceIte]
  split
  · simp [List.append_assoc]
  · rename_i h
    have : o.inField = false := by simpa using h
    simp [List.append_assoc, this]

mutual
theorem run_value : (t : J) → ∀ o : Out, run o t.calls = after o (t.body o.depth)
  | .tok t, o => by simp [J.calls, run, J.body, scalar_step]
  | .arr xs, o => by
      simp only [J.calls, J.body]
      rw [show Call.startArr :: (callsL xs ++ [Call.endArr]) = [Call.startArr] ++ callsL xs ++ [Call.endArr] by simp]
      rw [run_append, run_append]
      have h1 : run o [Call.startArr] =
          ⟨o.pre.data ++ [91, nl], o.depth + 1, false, .value :: o.stack⟩ := by
        simp [run, step, pre_inField, pre_stack, pre_depth]
      rw [h1, run_elems xs ⟨o.pre.data ++ [91, nl], o.depth + 1, false, .value :: o.stack⟩ (o.depth + 1) o.stack rfl rfl rfl]
      have := close_container o 91 93 (by decide) (elemsL (o.depth + 1) xs) (elemsL_ends _ xs) .value
      simpa [run, step] using this
  | .obj kvs, o => by
      simp only [J.calls, J.body]
      rw [show Call.startObj :: (callsKV kvs ++ [Call.endObj]) = [Call.startObj] ++ callsKV kvs ++ [Call.endObj] by simp]
      rw [run_append, run_append]
      have h1 : run o [Call.startObj] =
          ⟨o.pre.data ++ [123, nl], o.depth + 1, false, .key :: o.stack⟩ := by
        simp [run, step, pre_inField, pre_stack, pre_depth]
      rw [h1, run_kvs kvs ⟨o.pre.data ++ [123, nl], o.depth + 1, false, .key :: o.stack⟩ (o.depth + 1) o.stack rfl rfl rfl]
      have := close_container o 123 125 (by decide) (elemsKV (o.depth + 1) kvs) (elemsKV_ends _ kvs) .key
      simpa [run, step] using this
theorem run_elems : (xs : List J) → ∀ (o : Out) (n : Nat) (r : List St),
    o.depth = n → o.inField = false → o.stack = .value :: r →
    run o (callsL xs) = { o with data := o.data ++ elemsL n xs }
  | [], o, n, r, _, _, _ => by simp [callsL, run, elemsL]
  | x :: xs, o, n, r, hd, hf, hs => by
      subst hd
      simp only [callsL, run_append, elemsL]
      rw [run_value x o, after_arr o o.depth r _ rfl hf hs]
      rw [run_elems xs { o with data := o.data ++ indent o.depth ++ x.body o.depth ++ [comma, nl] } o.depth r rfl hf hs]
      simp [List.append_assoc]
theorem run_kvs : (kvs : List (Bytes × J)) → ∀ (o : Out) (n : Nat) (r : List St),
    o.depth = n → o.inField = false → o.stack = .key :: r →
    run o (callsKV kvs) = { o with data := o.data ++ elemsKV n kvs }
  | [], o, n, r, _, _, _ => by simp [callsKV, run, elemsKV]
  | (k, x) :: kvs, o, n, r, hd, hf, hs => by
      subst hd
      simp only [callsKV, run_append, elemsKV]
      have hstep : run o [Call.name k] = step o (.name k) := by simp [run]
      rw [show Call.name k :: x.calls = [Call.name k] ++ x.calls by simp, run_append, hstep, run_value x _]
      have hdn : (step o (.name k)).depth = o.depth := by
        simp only [step, Out.punct]; split <;> simp [pre_depth]
      rw [hdn, name_then_value o o.depth r k _ rfl hf hs]
      rw [run_kvs kvs { o with data := o.data ++ indent o.depth ++ k ++ [58, 32] ++ x.body o.depth ++ [comma, nl] } o.depth r rfl hf hs]
      simp [List.append_assoc]
end

/-- Theorem A for the prototype: `Done()` after the calls of a tree is the machine-shaped rendering plus newline. -/
theorem done_eq (t : J) : doneBytes t = t.body 0 ++ [nl] := by
  simp [doneBytes, run_value, after, Out.pre, Out.punct, Out.fin, indent]

#print axioms done_eq
