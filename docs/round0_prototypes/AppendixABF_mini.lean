abbrev Bytes := List UInt8

def appendVarUint (v : Nat) : Bytes :=
  if h : v < 128 then [v.toUInt8] else (v % 128 + 128).toUInt8 :: appendVarUint (v / 128)
termination_by v
decreasing_by omega

def uvarintAux : Bytes → (i : Nat) → (s : Nat) → (x : Nat) → Nat × Int
  | [], _, _, _ => (0, 0)
  | b :: rest, i, s, x =>
    if i = 10 then (0, -(Int.ofNat (i+1)))
    else if b.toNat < 128 then
      if i = 9 ∧ b.toNat > 1 then (0, -(Int.ofNat (i+1)))
      else (x ||| (b.toNat <<< s), Int.ofNat (i+1))
    else uvarintAux rest (i+1) (s+7) (x ||| ((b.toNat &&& 127) <<< s))

def readVarUint (d : Bytes) : Nat × Int := uvarintAux d 0 0 0

theorem or_shift_eq_add (x b s : Nat) (hx : x < 2 ^ s) : x ||| (b <<< s) = x + b * 2 ^ s := by
  rw [Nat.or_comm, Nat.shiftLeft_eq, Nat.mul_comm b, ← Nat.two_pow_add_eq_or_of_lt hx] <;> omega

theorem toUInt8_toNat_lt (v : Nat) (h : v < 256) : (v.toUInt8).toNat = v := by
  simp [Nat.toUInt8]; omega

theorem uvarint_append (v : Nat) : ∀ (rest : Bytes) (i s x : Nat),
    x < 2 ^ s → s = 7 * i → v < 2 ^ (64 - s) → i ≤ 9 →
    uvarintAux (appendVarUint v ++ rest) i s x
      = (x + v * 2 ^ s, Int.ofNat (i + (appendVarUint v).length)) := by
  induction v using Nat.strongRecOn with
  | _ v ih =>
    intro rest i s x hx hs hv hi
    unfold appendVarUint
    split
    · rename_i hlt
      simp only [List.cons_append, List.nil_append, uvarintAux]
      have h1 : (v.toUInt8).toNat = v := toUInt8_toNat_lt v (by omega)
      have hi10 : i ≠ 10 := by omega
      have h9 : ¬ (i = 9 ∧ v > 1) := by
        intro ⟨h9, hv1⟩
        subst h9; subst hs
        have : v < 2 ^ 1 := by simpa using hv
        omega
      simp only [hi10, ↓reduceIte, h1, hlt, h9, List.length_singleton]
      rw [or_shift_eq_add x v s hx]
    · rename_i hge
      have hge : 128 ≤ v := by omega
      simp only [List.cons_append, uvarintAux]
      have h1 : ((v % 128 + 128).toUInt8).toNat = v % 128 + 128 := toUInt8_toNat_lt _ (by omega)
      have hi10 : i ≠ 10 := by omega
      have hnlt : ¬ (v % 128 + 128 < 128) := by omega
      simp only [hi10, ↓reduceIte, h1, hnlt]
      have hand : (v % 128 + 128) &&& 127 = v % 128 := by
        have : (v % 128 + 128) &&& 127 = (v % 128 + 128) % 128 := by
          have := Nat.and_two_pow_sub_one_eq_mod (v % 128 + 128) 7
          simpa using this
        omega
      rw [hand, or_shift_eq_add x (v % 128) s hx]
      -- i ≤ 8 since v ≥ 128 and v < 2^(64-7i)
      have hi8 : i ≤ 8 := by
        rcases Nat.lt_or_ge i 9 with h | h
        · omega
        · have : i = 9 := by omega
          subst this; subst hs
          have : v < 2 ^ 1 := by simpa using hv
          omega
      have hdiv : v / 128 < 2 ^ (64 - (s + 7)) := by
        subst hs
        have h64 : 64 - 7 * i = (64 - (7 * i + 7)) + 7 := by omega
        rw [h64, Nat.pow_add] at hv
        exact Nat.div_lt_of_lt_mul (by simpa [Nat.mul_comm] using hv)
      have hx' : x + v % 128 * 2 ^ s < 2 ^ (s + 7) := by
        rw [Nat.pow_add]
        have : v % 128 < 128 := Nat.mod_lt _ (by omega)
        have h2 : v % 128 * 2 ^ s ≤ 127 * 2 ^ s := Nat.mul_le_mul_right _ (by omega)
        omega
      rw [ih (v / 128) (by omega) rest (i + 1) (s + 7) _ hx' (by omega) hdiv (by omega)]
      congr 1
      · rw [Nat.pow_add]
        have := Nat.div_add_mod v 128
        have e : v / 128 * (2 ^ s * 2 ^ 7) = (128 * (v / 128)) * 2 ^ s := by
          simp [Nat.mul_comm, Nat.mul_left_comm]
        rw [e]
        have : (128 * (v / 128) + v % 128) * 2 ^ s = v * 2 ^ s := by rw [this]
        rw [Nat.add_mul] at this
        omega
      · simp only [List.length_cons]; congr 1; omega

theorem read_append (v : Nat) (hv : v < 2 ^ 64) (rest : Bytes) :
    readVarUint (appendVarUint v ++ rest) = (v, Int.ofNat (appendVarUint v).length) := by
  have := uvarint_append v rest 0 0 0 (by simp) (by simp) (by simpa using hv) (by omega)
  simpa [readVarUint] using this

#print axioms read_append
theorem append_ne_nil (v : Nat) : appendVarUint v ≠ [] := by
  unfold appendVarUint; split <;> simp

/-- checked read: the form every (repaired) call site uses: `if n <= 0 { return err }` -/
def readU (d : Bytes) : Option (Nat × Nat) :=
  if (readVarUint d).2 ≤ 0 then none else some ((readVarUint d).1, (readVarUint d).2.toNat)

theorem readU_append (v : Nat) (hv : v < 2 ^ 64) (rest : Bytes) :
    readU (appendVarUint v ++ rest) = some (v, (appendVarUint v).length) := by
  have hpos : 0 < (appendVarUint v).length := List.length_pos_iff.mpr (append_ne_nil v)
  unfold readU
  rw [read_append v hv rest]
  have : ¬ (Int.ofNat (appendVarUint v).length ≤ 0) := by
    simp only [Int.ofNat_eq_natCast]; omega
  simp only [this, ↓reduceIte]
  rfl

/-! mini codec language -/
inductive Res (α : Type) | ok (a : α) | err | panic | hang
deriving Repr

inductive Ty where
  | uint | str | struct (fs : List (Nat × Ty))

inductive Val where
  | uint (n : Nat) | str (s : Bytes) | struct (vs : List Val)

inductive WT | varint | len deriving DecidableEq
def Ty.wt : Ty → WT | .uint => .varint | _ => .len
def WT.code : WT → Nat | .varint => 0 | .len => 2
def tagBytes (wt : WT) (idx : Nat) : Bytes := appendVarUint (idx * 8 + wt.code)

mutual
def Ty.zero : Ty → Val
  | .uint => .uint 0 | .str => .str [] | .struct fs => .struct (zeros fs)
def zeros : List (Nat × Ty) → List Val
  | [] => [] | (_, t) :: r => t.zero :: zeros r
end

def Val.omit : Val → Bool
  | .uint n => n == 0 | .str s => s.isEmpty | .struct _ => false

mutual
def Ty.hasTy : Ty → Val → Prop
  | .uint, .uint n => n < 2 ^ 64
  | .str, .str _ => True
  | .struct fs, .struct vs => fieldsHaveTy fs vs
  | _, _ => False
def fieldsHaveTy : List (Nat × Ty) → List Val → Prop
  | [], [] => True
  | (i, t) :: r, v :: vs => i < 2 ^ 28 ∧ t.hasTy v ∧ fieldsHaveTy r vs
  | _, _ => False
end

mutual
def Ty.body : Ty → Val → Bytes
  | .uint, .uint n => appendVarUint n
  | .str, .str s => s
  | .struct fs, .struct vs => fieldsBody fs vs
  | _, _ => []
def fieldsBody : List (Nat × Ty) → List Val → Bytes
  | (i, t) :: r, v :: vs =>
      (if v.omit then [] else
        tagBytes t.wt i ++ ((if t.wt = .len then appendVarUint (t.body v).length else []) ++ t.body v))
      ++ fieldsBody r vs
  | _, _ => []
end

abbrev FieldReader := Nat → Nat → Bytes → List Val → Res (List Val × Nat)

def structLoop (rd : FieldReader) : (fuel : Nat) → Bytes → List Val → Res (List Val)
  | 0, _, _ => .hang
  | fuel+1, data, acc =>
    if data = [] then .ok acc else
    match readU data with
    | none => .err
    | some (tag, n) =>
      match rd (tag / 8) (tag % 8) (data.drop n) acc with
      | .ok (acc', m) => structLoop rd fuel (data.drop (n + m)) acc'
      | .err => .err | .panic => .panic | .hang => .hang

def Res.mapFst {α β : Type} (f : α → β) : Res (α × Nat) → Res (β × Nat)
  | .ok (a, n) => .ok (f a, n) | .err => .err | .panic => .panic | .hang => .hang
def Res.addN {α : Type} (k : Nat) : Res (α × Nat) → Res (α × Nat)
  | .ok (a, n) => .ok (a, k + n) | .err => .err | .panic => .panic | .hang => .hang

mutual
def Ty.read : Ty → Bytes → Val → Res (Val × Nat)
  | .uint, d, _ =>
      match readU d with
      | none => .err
      | some (v, n) => .ok (.uint v, n)
  | .str, d, _ => .ok (.str d, d.length)
  | .struct fs, d, p =>
      let prior := match p with | .struct vs => vs | _ => zeros fs
      match structLoop (fun idx wt body acc => readField fs acc idx wt body) (d.length + 1) d prior with
      | .ok vs => .ok (.struct vs, d.length)
      | .err => .err | .panic => .panic | .hang => .hang
def readField : List (Nat × Ty) → List Val → Nat → Nat → Bytes → Res (List Val × Nat)
  | [], _, _, _, _ => .err      -- (skip elided in the prototype)
  | (i, t) :: r, a :: as, idx, wt, body =>
      if i = idx then
        if wt = 2 then
          match readU body with
          | none => .err
          | some (l, n) =>
            if l > (body.drop n).length then .err else
            Res.addN n (Res.mapFst (· :: as) (t.read ((body.drop n).take l) a))
        else
          Res.mapFst (· :: as) (t.read body a)
      else
        Res.mapFst (a :: ·) (readField r as idx wt body)
  | _ :: _, [], _, _, _ => .panic
end

/-! ### round trip for the mini language -/

mutual
def Ty.wf : Ty → Prop
  | .uint => True | .str => True
  | .struct fs => (fs.map (·.1)).Nodup ∧ fieldsWf fs
def fieldsWf : List (Nat × Ty) → Prop
  | [] => True
  | (_, t) :: r => t.wf ∧ fieldsWf r
end

def RT (t : Ty) : Prop :=
  ∀ v, t.hasTy v → t.wf → (t.body v).length < 2 ^ 64 →
    (t.wt = .varint → ∀ rest p, t.read (t.body v ++ rest) p = .ok (v, (t.body v).length)) ∧
    (t.wt = .len → t.read (t.body v) t.zero = .ok (v, (t.body v).length))

theorem omit_zero (t : Ty) (v : Val) (h : t.hasTy v) (ho : v.omit = true) : v = t.zero := by
  cases t <;> cases v <;> simp_all [Ty.hasTy, Val.omit, Ty.zero]

theorem code_le (wt : WT) : wt.code ≤ 2 := by cases wt <;> simp [WT.code]

theorem readU_tag (wt : WT) (i : Nat) (hi : i < 2 ^ 28) (rest : Bytes) :
    readU (tagBytes wt i ++ rest) = some (i * 8 + wt.code, (tagBytes wt i).length) := by
  unfold tagBytes
  apply readU_append
  have := code_le wt
  omega

theorem tag_len_pos (wt : WT) (i : Nat) : 0 < (tagBytes wt i).length := by
  unfold tagBytes
  exact List.length_pos_iff.mpr (append_ne_nil _)

theorem readField_skip_prefix (pre : List (Nat × Ty)) (i : Nat) (hni : i ∉ pre.map (·.1)) (t : Ty)
    (suf : List (Nat × Ty)) (a : Val) (as : List Val) (wt : Nat) (body : Bytes) :
    ∀ (vpre : List Val), vpre.length = pre.length →
    readField (pre ++ (i, t) :: suf) (vpre ++ a :: as) i wt body =
      Res.mapFst (vpre ++ ·) (readField ((i, t) :: suf) (a :: as) i wt body) := by
  induction pre with
  | nil =>
    intro vpre hl
    cases vpre with
    | nil =>
      simp only [List.nil_append]
      generalize readField ((i, t) :: suf) (a :: as) i wt body = r
      cases r with
      | ok p => obtain ⟨l, m⟩ := p; rfl
      | _ => rfl
    | cons _ _ => simp at hl
  | cons p pre ih =>
    obtain ⟨j, tj⟩ := p
    intro vpre hl
    cases vpre with
    | nil => simp at hl
    | cons b vpre =>
      have hl' : vpre.length = pre.length := by simpa using hl
      have hji : ¬ j = i := by
        intro h; apply hni; simp [h]
      have hni' : i ∉ pre.map (·.1) := by
        intro h; apply hni; simp only [List.map_cons, List.mem_cons]; exact Or.inr h
      simp only [List.cons_append]
      rw [readField]
      simp only [hji, ↓reduceIte]
      rw [ih hni' vpre hl']
      generalize readField ((i, t) :: suf) (a :: as) i wt body = r
      cases r with
      | ok p => obtain ⟨l, m⟩ := p; rfl
      | _ => rfl

theorem drop_append_len {α} (a b : List α) (n : Nat) (h : n = a.length) : (a ++ b).drop n = b := by
  subst h; simp

theorem loop_lemma (fs : List (Nat × Ty)) (hall : ∀ p ∈ fs, RT p.2) (hnd : (fs.map (·.1)).Nodup) :
    ∀ (suf : List (Nat × Ty)) (vsuf : List Val) (pre : List (Nat × Ty)) (vpre : List Val),
      fs = pre ++ suf → vpre.length = pre.length → fieldsHaveTy suf vsuf → fieldsWf suf →
      ∀ fuel, (fieldsBody suf vsuf).length < fuel → (fieldsBody suf vsuf).length < 2 ^ 64 →
      structLoop (fun idx wt body acc => readField fs acc idx wt body) fuel (fieldsBody suf vsuf) (vpre ++ zeros suf)
        = .ok (vpre ++ vsuf) := by
  intro suf
  induction suf with
  | nil =>
    intro vsuf pre vpre _ _ hty _ fuel hf _
    cases vsuf with
    | nil =>
      cases fuel with
      | zero => omega
      | succ f => simp [fieldsBody, structLoop, zeros]
    | cons _ _ => simp [fieldsHaveTy] at hty
  | cons p suf ih =>
    obtain ⟨i, t⟩ := p
    intro vsuf pre vpre hfs hl hty hwf fuel hf hsz
    cases vsuf with
    | nil => simp [fieldsHaveTy] at hty
    | cons v vs =>
      simp only [fieldsHaveTy] at hty
      obtain ⟨hi, htv, htr⟩ := hty
      simp only [fieldsWf] at hwf
      obtain ⟨hwt, hwr⟩ := hwf
      have hfs' : fs = (pre ++ [(i, t)]) ++ suf := by simp [hfs]
      have hl' : (vpre ++ [v]).length = (pre ++ [(i, t)]).length := by simp [hl]
      have hmem : (i, t) ∈ fs := by simp [hfs]
      have hni : i ∉ pre.map (·.1) := by
        rw [hfs] at hnd
        simp only [List.map_append, List.map_cons] at hnd
        have := (List.nodup_append.mp hnd).2.2
        intro hmem
        exact this i hmem i (by simp) rfl
      by_cases ho : v.omit = true
      · have hz : v = t.zero := omit_zero t v htv ho
        have e1 : fieldsBody ((i, t) :: suf) (v :: vs) = fieldsBody suf vs := by
          simp [fieldsBody, ho]
        have e2 : vpre ++ zeros ((i, t) :: suf) = (vpre ++ [v]) ++ zeros suf := by
          simp [zeros, hz]
        rw [e1, e2]
        rw [e1] at hf hsz
        have := ih vs (pre ++ [(i, t)]) (vpre ++ [v]) hfs' hl' htr hwr fuel hf hsz
        simpa using this
      · have ho' : v.omit = false := by simpa using ho
        cases fuel with
        | zero => omega
        | succ f =>
          have ebody : fieldsBody ((i, t) :: suf) (v :: vs) =
              tagBytes t.wt i ++ (((if t.wt = .len then appendVarUint (t.body v).length else []) ++ t.body v) ++ fieldsBody suf vs) := by
            simp [fieldsBody, ho']
          rw [ebody] at hf hsz ⊢
          simp only [List.length_append] at hf hsz
          have htl := tag_len_pos t.wt i
          have hbl : (t.body v).length < 2 ^ 64 := by omega
          have hrt := hall (i, t) hmem v htv hwt hbl
          have hf2 : (fieldsBody suf vs).length < f := by omega
          have hsz2 : (fieldsBody suf vs).length < 2 ^ 64 := by omega
          have hcont := ih vs (pre ++ [(i, t)]) (vpre ++ [v]) hfs' hl' htr hwr f hf2 hsz2
          have hcont' : structLoop (fun idx wt body acc => readField fs acc idx wt body) f (fieldsBody suf vs)
              (vpre ++ v :: zeros suf) = .ok (vpre ++ v :: vs) := by simpa using hcont
          rw [structLoop]
          have hne : tagBytes t.wt i ++ (((if t.wt = .len then appendVarUint (t.body v).length else []) ++ t.body v) ++ fieldsBody suf vs) ≠ [] := by
            intro h
            have := congrArg List.length h
            simp only [List.length_append, List.length_nil] at this; omega
          simp only [hne, ↓reduceIte, readU_tag t.wt i hi]
          have hdiv : (i * 8 + t.wt.code) / 8 = i := by have := code_le t.wt; omega
          have hmod : (i * 8 + t.wt.code) % 8 = t.wt.code := by have := code_le t.wt; omega
          rw [hdiv, hmod, drop_append_len _ _ _ rfl]
          have ez : vpre ++ zeros ((i, t) :: suf) = vpre ++ t.zero :: zeros suf := by simp [zeros]
          rw [ez, hfs, readField_skip_prefix pre i hni t suf t.zero (zeros suf) _ _ vpre hl]
          rw [readField]
          simp only [↓reduceIte]
          by_cases hw : t.wt = .len
          · have hcode : t.wt.code = 2 := by simp [hw, WT.code]
            simp only [hcode, hw, ↓reduceIte, List.append_assoc]
            rw [readU_append _ hbl]
            simp only [drop_append_len _ _ _ rfl, List.length_append]
            have hgt : ¬ ((t.body v).length > (t.body v).length + (fieldsBody suf vs).length) := by omega
            simp only [hgt, ↓reduceIte, List.take_left', hrt.2 hw, Res.mapFst, Res.addN, WT.code]
            rw [hfs] at hcont'
            have hd : List.drop ((tagBytes WT.len i).length + ((appendVarUint (t.body v).length).length + (t.body v).length))
                (tagBytes WT.len i ++ (appendVarUint (t.body v).length ++ (t.body v ++ fieldsBody suf vs))) = fieldsBody suf vs := by
              rw [← List.append_assoc, ← List.append_assoc]
              apply drop_append_len
              simp [List.length_append, Nat.add_assoc]
            rw [hd]
            exact hcont'
          · have hw' : t.wt = .varint := by cases h : t.wt <;> simp_all
            have hcode : t.wt.code = 0 := by simp [hw', WT.code]
            have h02 : ¬ ((0 : Nat) = 2) := by omega
            have hrt1 := hrt.1 hw' (fieldsBody suf vs) t.zero
            have hvl : ¬ (WT.varint = WT.len) := by decide
            simp only [hw'] at hrt1 ⊢
            simp only [WT.code, h02, hvl, ↓reduceIte, List.nil_append, List.append_assoc, hrt1, Res.mapFst]
            rw [hfs] at hcont'
            have hd : List.drop ((tagBytes WT.varint i).length + (t.body v).length)
                (tagBytes WT.varint i ++ (t.body v ++ fieldsBody suf vs)) = fieldsBody suf vs := by
              rw [← List.append_assoc]
              apply drop_append_len
              simp [List.length_append]
            rw [hd]
            exact hcont'


mutual
theorem rt_ty : (t : Ty) → RT t
  | .uint => by
      intro v hty _ hsz
      cases v with
      | uint n =>
        simp only [Ty.hasTy] at hty
        refine ⟨fun _ rest p => ?_, fun h => by simp [Ty.wt] at h⟩
        simp only [Ty.body, Ty.read, readU_append n hty rest]
      | _ => simp [Ty.hasTy] at hty
  | .str => by
      intro v hty _ _
      cases v with
      | str s =>
        refine ⟨fun h => by simp [Ty.wt] at h, fun _ => ?_⟩
        simp [Ty.body, Ty.read]
      | _ => simp [Ty.hasTy] at hty
  | .struct fs => by
      intro v hty hwf hsz
      cases v with
      | struct vs =>
        refine ⟨fun h => by simp [Ty.wt] at h, fun _ => ?_⟩
        simp only [Ty.hasTy] at hty
        simp only [Ty.wf] at hwf
        simp only [Ty.body] at hsz ⊢
        simp only [Ty.read, Ty.zero]
        have := loop_lemma fs (rt_fields fs) hwf.1 fs vs [] [] (by simp) rfl hty hwf.2
          ((fieldsBody fs vs).length + 1) (by omega) hsz
        simp only [List.nil_append] at this
        rw [this]
      | _ => simp [Ty.hasTy] at hty
theorem rt_fields : (fs : List (Nat × Ty)) → ∀ p ∈ fs, RT p.2
  | [] => by simp
  | (i, t) :: r => by
      intro p hp
      rcases List.mem_cons.mp hp with h | h
      · subst h; exact rt_ty t
      · exact rt_fields r p h
end

#print axioms rt_ty

/-- The property-level statement for the mini language. -/
theorem unmarshal_marshal (t : Ty) (v : Val) (hty : t.hasTy v) (hwf : t.wf) (hl : t.wt = .len)
    (hsz : (t.body v).length < 2 ^ 64) :
    t.read (t.body v) t.zero = .ok (v, (t.body v).length) :=
  ((rt_ty t) v hty hwf hsz).2 hl

def ex : Ty := .struct [(1, .uint), (2, .str), (3, .struct [(1, .uint)])]
def exv : Val := .struct [.uint 300, .str [1,2,3], .struct [.uint 7]]
-- non-vacuity
example : ex.hasTy exv ∧ ex.wf := by
  simp [ex, exv, Ty.hasTy, fieldsHaveTy, Ty.wf, fieldsWf]
/-! ### totality (C04 shape) for the mini language: never `panic`, never `hang`, consumed ≤ input -/

def Res.fine {α : Type} : Res α → Prop
  | .ok _ => True | .err => True | .panic => False | .hang => False

mutual
def Ty.shape : Ty → Val → Prop
  | .uint, _ => True
  | .str, _ => True
  | .struct fs, .struct vs => shapeL fs vs
  | .struct _, _ => True            -- a non-struct prior is replaced by zeros
def shapeL : List (Nat × Ty) → List Val → Prop
  | [], [] => True
  | (_, t) :: r, v :: vs => t.shape v ∧ shapeL r vs
  | _, _ => False
end

mutual
theorem zero_shape : (t : Ty) → t.shape t.zero
  | .uint => by simp [Ty.shape]
  | .str => by simp [Ty.shape]
  | .struct fs => by simp only [Ty.zero, Ty.shape]; exact zeros_shape fs
theorem zeros_shape : (fs : List (Nat × Ty)) → shapeL fs (zeros fs)
  | [] => by simp [zeros, shapeL]
  | (_, t) :: r => by simp only [zeros, shapeL]; exact ⟨zero_shape t, zeros_shape r⟩
end

/-- what totality of one reader means -/
def Good (t : Ty) : Prop :=
  ∀ d p, t.shape p → (t.read d p).fine ∧ ∀ v n, t.read d p = .ok (v, n) → n ≤ d.length ∧ t.shape v

def GoodField (fs : List (Nat × Ty)) : Prop :=
  ∀ acc idx wt body, shapeL fs acc →
    (readField fs acc idx wt body).fine ∧
    ∀ acc' m, readField fs acc idx wt body = .ok (acc', m) → m ≤ body.length ∧ shapeL fs acc'

theorem uvarintAux_le : ∀ (d : Bytes) (i s x : Nat), (uvarintAux d i s x).2 ≤ Int.ofNat (i + d.length)
  | [], i, s, x => by simp only [uvarintAux, Int.ofNat_eq_natCast]; omega
  | b :: rest, i, s, x => by
    have ih := uvarintAux_le rest (i + 1) (s + 7) (x ||| ((b.toNat &&& 127) <<< s))
    simp only [uvarintAux, List.length_cons, Int.ofNat_eq_natCast] at ih ⊢
    split
    · omega
    · split
      · split <;> omega
      · omega

theorem readU_le (d : Bytes) (v n : Nat) (h : readU d = some (v, n)) : 0 < n ∧ n ≤ d.length := by
  unfold readU at h
  split at h
  · simp at h
  · rename_i hpos
    injection h with h; injection h with h1 h2
    have hle := uvarintAux_le d 0 0 0
    simp only [Int.ofNat_eq_natCast, Nat.zero_add] at hle
    unfold readVarUint at hpos h2
    omega

theorem loop_fine (fs : List (Nat × Ty)) (hg : GoodField fs) :
    ∀ fuel data acc, data.length < fuel → shapeL fs acc →
      (structLoop (fun idx wt body acc => readField fs acc idx wt body) fuel data acc).fine ∧
      ∀ vs, structLoop (fun idx wt body acc => readField fs acc idx wt body) fuel data acc = .ok vs → shapeL fs vs := by
  intro fuel
  induction fuel with
  | zero => intro data acc h; omega
  | succ f ih =>
    intro data acc hl hs
    rw [structLoop]
    by_cases hd : data = []
    · simp [hd, Res.fine, hs]
    · simp only [hd, ↓reduceIte]
      cases hr : readU data with
      | none => simp [Res.fine]
      | some p =>
        obtain ⟨tag, n⟩ := p
        have ⟨hn0, hnl⟩ := readU_le data tag n hr
        simp only
        have hgf := hg acc (tag / 8) (tag % 8) (data.drop n) hs
        cases hrf : readField fs acc (tag / 8) (tag % 8) (data.drop n) with
        | ok q =>
          obtain ⟨acc', m⟩ := q
          have ⟨_, hs'⟩ := hgf.2 acc' m hrf
          simp only
          apply ih
          · simp only [List.length_drop]; omega
          · exact hs'
        | err => simp [Res.fine]
        | panic => rw [hrf] at hgf; exact absurd hgf.1 (by simp [Res.fine])
        | hang => rw [hrf] at hgf; exact absurd hgf.1 (by simp [Res.fine])

theorem goodField_of (fs : List (Nat × Ty)) (hall : ∀ p ∈ fs, Good p.2) : GoodField fs := by
  induction fs with
  | nil =>
    intro acc idx wt body _
    simp [readField, Res.fine]
  | cons p r ih =>
    obtain ⟨i, t⟩ := p
    intro acc idx wt body hs
    cases acc with
    | nil => simp [shapeL] at hs
    | cons a as =>
      simp only [shapeL] at hs
      have hgt : Good t := hall (i, t) (by simp)
      rw [readField]
      by_cases hi : i = idx
      · simp only [hi, ↓reduceIte]
        by_cases hw : wt = 2
        · simp only [hw, ↓reduceIte]
          cases hr : readU body with
          | none => simp [Res.fine]
          | some q =>
            obtain ⟨l, n⟩ := q
            have ⟨hn0, hnl⟩ := readU_le body l n hr
            simp only
            by_cases hgt2 : l > (body.drop n).length
            · rw [if_pos hgt2]; simp [Res.fine]
            · rw [if_neg hgt2]
              have hg := hgt ((body.drop n).take l) a hs.1
              cases hrd : t.read ((body.drop n).take l) a with
              | ok q2 =>
                obtain ⟨v, m⟩ := q2
                have ⟨hm, hsv⟩ := hg.2 v m hrd
                simp only [Res.mapFst, Res.addN, Res.fine, true_and]
                intro acc' m' h
                injection h with h
                injection h with h1 h2
                subst h1; subst h2
                simp only [List.length_take, List.length_drop] at hm hgt2
                refine ⟨by omega, ?_⟩
                simp only [shapeL]; exact ⟨hsv, hs.2⟩
              | err => simp [Res.mapFst, Res.addN, Res.fine]
              | panic => rw [hrd] at hg; exact absurd hg.1 (by simp [Res.fine])
              | hang => rw [hrd] at hg; exact absurd hg.1 (by simp [Res.fine])
        · simp only [hw, ↓reduceIte]
          have hg := hgt body a hs.1
          cases hrd : t.read body a with
          | ok q2 =>
            obtain ⟨v, m⟩ := q2
            have ⟨hm, hsv⟩ := hg.2 v m hrd
            simp only [Res.mapFst, Res.fine, true_and]
            intro acc' m' h
            injection h with h
            injection h with h1 h2
            subst h1; subst h2
            exact ⟨hm, by simp only [shapeL]; exact ⟨hsv, hs.2⟩⟩
          | err => simp [Res.mapFst, Res.fine]
          | panic => rw [hrd] at hg; exact absurd hg.1 (by simp [Res.fine])
          | hang => rw [hrd] at hg; exact absurd hg.1 (by simp [Res.fine])
      · simp only [hi, ↓reduceIte]
        have hgr := ih (fun p hp => hall p (by simp [hp])) as idx wt body hs.2
        cases hrr : readField r as idx wt body with
        | ok q =>
          obtain ⟨as', m⟩ := q
          have ⟨hm, hsr⟩ := hgr.2 as' m hrr
          simp only [Res.mapFst, Res.fine, true_and]
          intro acc' m' h
          injection h with h
          injection h with h1 h2
          subst h1; subst h2
          exact ⟨hm, by simp only [shapeL]; exact ⟨hs.1, hsr⟩⟩
        | err => simp [Res.mapFst, Res.fine]
        | panic => rw [hrr] at hgr; exact absurd hgr.1 (by simp [Res.fine])
        | hang => rw [hrr] at hgr; exact absurd hgr.1 (by simp [Res.fine])

mutual
theorem good_ty : (t : Ty) → Good t
  | .uint => by
      intro d p _
      simp only [Ty.read]
      cases hr : readU d with
      | none => simp [Res.fine]
      | some q =>
        obtain ⟨v, n⟩ := q
        have := readU_le d v n hr
        simp only [Res.fine, true_and]
        intro v' n' h
        injection h with h; injection h with h1 h2
        subst h2
        exact ⟨this.2, by simp [Ty.shape]⟩
  | .str => by
      intro d p _
      simp only [Ty.read, Res.fine, true_and]
      intro v n h
      injection h with h; injection h with h1 h2
      subst h2
      exact ⟨Nat.le_refl _, by simp [Ty.shape]⟩
  | .struct fs => by
      intro d p hp
      simp only [Ty.read]
      generalize hpr : (match p with | .struct vs => vs | _ => zeros fs) = prior
      have hprior : shapeL fs prior := by
        subst hpr
        cases p with
        | struct vs => simpa [Ty.shape] using hp
        | uint _ => exact zeros_shape fs
        | str _ => exact zeros_shape fs
      have hl := loop_fine fs (goodField_of fs (good_fields fs)) (d.length + 1) d prior (by omega) hprior
      generalize structLoop (fun idx wt body acc => readField fs acc idx wt body) (d.length + 1) d prior = res at hl
      cases res with
      | ok vs =>
        simp only [Res.fine, true_and]
        intro v n h
        injection h with h; injection h with h1 h2
        subst h1; subst h2
        exact ⟨Nat.le_refl _, by simp only [Ty.shape]; exact hl.2 vs rfl⟩
      | err => simp [Res.fine]
      | panic => exact absurd hl.1 (by simp [Res.fine])
      | hang => exact absurd hl.1 (by simp [Res.fine])
theorem good_fields : (fs : List (Nat × Ty)) → ∀ p ∈ fs, Good p.2
  | [] => by simp
  | (i, t) :: r => by
      intro p hp
      rcases List.mem_cons.mp hp with h | h
      · subst h; exact good_ty t
      · exact good_fields r p h
end

/-- C04 for the mini language: decoding arbitrary bytes returns a value or an error. -/
theorem read_total (t : Ty) (d : Bytes) : (t.read d t.zero).fine := (good_ty t d t.zero (zero_shape t)).1
#print axioms read_total
