/-! Prototype for C19: the copy-on-write intern table under arbitrary interleavings. -/
abbrev Str := List UInt8
abbrev Table := List (Str × Str)

def lookup : Table → Str → Option Str
  | [], _ => none
  | (k, v) :: r, d => if k = d then some v else lookup r d

def TInv (m : Table) : Prop := ∀ k v, (k, v) ∈ m → k = v

theorem lookup_inv (m : Table) (h : TInv m) (d v : Str) (hl : lookup m d = some v) : v = d := by
  induction m with
  | nil => simp [lookup] at hl
  | cons p r ih =>
    obtain ⟨k, w⟩ := p
    simp only [lookup] at hl
    split at hl
    · rename_i hk
      injection hl with hl
      have := h k w (by simp)
      rw [← hl, ← this, hk]
    · exact ih (fun k v hm => h k v (by simp [hm])) hl

inductive PC
  | start | missed | locked | storing (m : Table) | unlocking (s : Str) | done (s : Str)

structure Thread where
  d : Str
  pc : PC

structure Sys where
  tbl : Table
  lock : Option Nat
  th : Nat → Thread

def upd (f : Nat → Thread) (i : Nat) (t : Thread) : Nat → Thread := fun j => if j = i then t else f j

/-- one atomic step of thread `i` (the yield points of `InternedStringCodec.Read/addString`) -/
inductive Step : Sys → Sys → Prop
  | loadHit (s : Sys) (i : Nat) (v : Str) : (s.th i).pc = .start → lookup s.tbl (s.th i).d = some v →
      Step s { s with th := upd s.th i ⟨(s.th i).d, .done v⟩ }
  | loadMiss (s : Sys) (i : Nat) : (s.th i).pc = .start → lookup s.tbl (s.th i).d = none →
      Step s { s with th := upd s.th i ⟨(s.th i).d, .missed⟩ }
  | lock (s : Sys) (i : Nat) : (s.th i).pc = .missed → s.lock = none →
      Step s { s with lock := some i, th := upd s.th i ⟨(s.th i).d, .locked⟩ }
  | reloadHit (s : Sys) (i : Nat) (v : Str) : (s.th i).pc = .locked → lookup s.tbl (s.th i).d = some v →
      Step s { s with th := upd s.th i ⟨(s.th i).d, .unlocking v⟩ }
  | reloadMiss (s : Sys) (i : Nat) : (s.th i).pc = .locked → lookup s.tbl (s.th i).d = none →
      Step s { s with th := upd s.th i ⟨(s.th i).d, .storing s.tbl⟩ }
  | store (s : Sys) (i : Nat) (m : Table) : (s.th i).pc = .storing m →
      Step s { s with tbl := ((s.th i).d, (s.th i).d) :: m, th := upd s.th i ⟨(s.th i).d, .unlocking (s.th i).d⟩ }
  | unlock (s : Sys) (i : Nat) (v : Str) : (s.th i).pc = .unlocking v →
      Step s { s with lock := none, th := upd s.th i ⟨(s.th i).d, .done v⟩ }
  | next (s : Sys) (i : Nat) (v d' : Str) : (s.th i).pc = .done v →     -- the thread decodes another value
      Step s { s with th := upd s.th i ⟨d', .start⟩ }

def holds (pc : PC) : Prop :=
  match pc with | .locked => True | .storing _ => True | .unlocking _ => True | _ => False

def ThreadInv (s : Sys) (i : Nat) : Prop :=
  (holds (s.th i).pc → s.lock = some i) ∧
  match (s.th i).pc with
  | .storing m => m = s.tbl
  | .unlocking v => v = (s.th i).d
  | .done v => v = (s.th i).d
  | _ => True

def SysInv (s : Sys) : Prop := TInv s.tbl ∧ ∀ i, ThreadInv s i

theorem upd_same (f : Nat → Thread) (i : Nat) (t : Thread) : upd f i t i = t := by simp [upd]
theorem upd_other (f : Nat → Thread) (i j : Nat) (t : Thread) (h : j ≠ i) : upd f i t j = f j := by simp [upd, h]

theorem step_inv (s s' : Sys) (h : SysInv s) (st : Step s s') : SysInv s' := by
  obtain ⟨ht, hth⟩ := h
  cases st with
  | loadHit i v hpc hl =>
    refine ⟨ht, fun j => ?_⟩
    by_cases hj : j = i
    · subst hj
      simp only [ThreadInv, upd_same, holds]
      exact ⟨fun h => h.elim, lookup_inv _ ht _ _ hl⟩
    · have := hth j
      simpa [ThreadInv, upd_other _ _ _ _ hj] using this
  | loadMiss i hpc hl =>
    refine ⟨ht, fun j => ?_⟩
    by_cases hj : j = i
    · subst hj; simp [ThreadInv, upd_same, holds]
    · have := hth j
      simpa [ThreadInv, upd_other _ _ _ _ hj] using this
  | lock i hpc hl =>
    refine ⟨ht, fun j => ?_⟩
    by_cases hj : j = i
    · subst hj; simp [ThreadInv, upd_same, holds]
    · have hjj := hth j
      simp only [ThreadInv, upd_other _ _ _ _ hj] at hjj ⊢
      refine ⟨fun hh => ?_, hjj.2⟩
      have := hjj.1 hh
      rw [hl] at this; cases this
  | reloadHit i v hpc hl =>
    refine ⟨ht, fun j => ?_⟩
    by_cases hj : j = i
    · subst hj
      have hi := (hth j).1 (by simp [hpc, holds])
      simp only [ThreadInv, upd_same, holds]
      exact ⟨fun _ => hi, lookup_inv _ ht _ _ hl⟩
    · have := hth j
      simpa [ThreadInv, upd_other _ _ _ _ hj] using this
  | reloadMiss i hpc hl =>
    refine ⟨ht, fun j => ?_⟩
    by_cases hj : j = i
    · subst hj
      have hi := (hth j).1 (by simp [hpc, holds])
      simp only [ThreadInv, upd_same, holds]
      exact ⟨fun _ => hi, trivial⟩
    · have := hth j
      simpa [ThreadInv, upd_other _ _ _ _ hj] using this
  | store i m hpc =>
    have hi := hth i
    simp only [ThreadInv, hpc] at hi
    have hlock := hi.1 (by simp [holds])
    have hm : m = s.tbl := hi.2
    refine ⟨?_, fun j => ?_⟩
    · intro k v hmem
      simp only [List.mem_cons] at hmem
      rcases hmem with h | h
      · injection h with h1 h2; rw [h1, h2]
      · exact ht k v (hm ▸ h)
    · by_cases hj : j = i
      · subst hj
        simp only [ThreadInv, upd_same, holds]
        exact ⟨fun _ => hlock, trivial⟩
      · have hjj := hth j
        simp only [ThreadInv, upd_other _ _ _ _ hj] at hjj ⊢
        refine ⟨hjj.1, ?_⟩
        -- another thread cannot be in `storing`: it would hold the lock
        cases hpcj : (s.th j).pc with
        | storing m' =>
          have := hjj.1 (by simp [hpcj, holds])
          rw [hlock] at this; injection this with this; exact absurd this.symm hj
        | _ => simp_all
  | unlock i v hpc =>
    have hi := hth i
    simp only [ThreadInv, hpc] at hi
    have hlock := hi.1 (by simp [holds])
    refine ⟨ht, fun j => ?_⟩
    by_cases hj : j = i
    · subst hj
      simp only [ThreadInv, upd_same, holds]
      exact ⟨fun h => h.elim, hi.2⟩
    · have hjj := hth j
      simp only [ThreadInv, upd_other _ _ _ _ hj] at hjj ⊢
      refine ⟨fun hh => ?_, hjj.2⟩
      have := hjj.1 hh
      rw [hlock] at this; injection this with this; exact absurd this.symm hj
  | next i v d' hpc =>
    refine ⟨ht, fun j => ?_⟩
    by_cases hj : j = i
    · subst hj; simp [ThreadInv, upd_same, holds]
    · have := hth j
      simpa [ThreadInv, upd_other _ _ _ _ hj] using this

inductive Reach (s0 : Sys) : Sys → Prop
  | refl : Reach s0 s0
  | step (s s' : Sys) : Reach s0 s → Step s s' → Reach s0 s'

theorem reach_inv (s0 s : Sys) (h0 : SysInv s0) (hr : Reach s0 s) : SysInv s := by
  induction hr with
  | refl => exact h0
  | step s s' _ st ih => exact step_inv s s' ih st

/-- C19, schedules: under every interleaving, whatever a thread obtains for the bytes `d` is `d`. -/
theorem interned_equals_plain (s0 s : Sys) (h0 : SysInv s0) (hr : Reach s0 s) (i : Nat) (v : Str)
    (hd : (s.th i).pc = .done v) : v = (s.th i).d := by
  have := (reach_inv s0 s h0 hr).2 i
  simp only [ThreadInv, hd] at this
  exact this.2

/-- published entries are never removed or changed (under the invariant) -/
theorem table_monotone (s s' : Sys) (h : SysInv s) (st : Step s s') : ∀ p, p ∈ s.tbl → p ∈ s'.tbl := by
  intro p hp
  cases st with
  | store i m hpc =>
    have hi := h.2 i
    simp only [ThreadInv, hpc] at hi
    simp only [List.mem_cons]
    exact Or.inr (hi.2 ▸ hp)
  | _ => exact hp

-- non-vacuity: the empty system satisfies the invariant
example : SysInv ⟨[], none, fun _ => ⟨[], .start⟩⟩ := by
  refine ⟨fun _ _ h => by simp at h, fun i => ?_⟩
  simp [ThreadInv, holds]

#print axioms interned_equals_plain
#print axioms table_monotone
